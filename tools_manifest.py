#!/usr/bin/env python3
"""Regenerates MANIFEST.json from the table below (kept in one place so it stays valid)."""
import json

LEVEL = {
 "C01": ("exploration", "2.C01"), "C02": ("fault_enumeration", "2.C02"), "C03": ("exploration", "2.C03"),
 "C04": ("exploration", "2.C04"), "C05": ("exploration", "2.C05"), "C06": ("exploration", "2.C06"),
 "C07": ("exploration", "2.C07"), "C08": ("exploration", "2.C08"), "C09": ("exploration", "2.C09"),
 "C10": ("exploration", "2.C10"), "C11": ("exploration", "2.C11"), "C12": ("exploration", "2.C12"),
 "C13": ("exploration", "2.C13"), "C14": ("exploration", "2.C14"), "C15": ("exploration", "2.C15"),
 "C16": ("exploration", "2.C16"), "C17": ("fault_enumeration", "2.C17"), "C18": ("fault_enumeration", "2.C17"),
 "C19": ("exploration", "2.C19"), "C20": ("exploration", "2.C20"),
}
TEXT = {
 "C01": ("Runtime monitor: the real Receiver.listen() runs generated message scripts on a virtual-time asyncio loop; an offline oracle checks exactly-once execution over the recorded broker-yield / task-invocation history, incl. stop-instant sweeps at every observed event instant. Held on the executions explored, nothing more.",
         "virtual-time trace monitoring + exactly-once history oracle"),
 "C02": ("Runtime monitor with crash-point enumeration: every prefix of every recorded trace is a crash point; at each prefix acked messages must have reached their configured point. Exhaustive over prefixes of the explored traces, exploratory over scenarios.",
         "trace-prefix (crash point) enumeration over recorded ack/exec/save events"),
 "C03": ("Runtime monitor: open-callback counter invariant at every event + saturation probe after generated outcome histories; bounded progress decided in virtual time.",
         "invariant monitor on recorded traces + saturation probe"),
 "C04": ("Runtime monitor: outstanding-message counter (yielded - finished) checked after every event for all 20 (A,P) pairs under backlog.",
         "counter invariant over recorded yield/finish/ack events + configuration wiring probe (command line / run_receiver_task -> Receiver)"),
 "C05": ("Runtime monitor in virtual time: drain, at-most-one-further-message, exact N and bounded-progress return deadlines, with stop-instant sweeps; known finding F6 classified by mechanism. Cross-check on real processes: `python -m taskiq worker` with a scripted broker module is stopped by SIGINT/SIGTERM and judged on the order of the worker's own event log.",
         "virtual-time bounded-progress oracle over shutdown histories + log-order oracle over real `taskiq worker` processes"),
 "C06": ("Runtime monitor: every dependency/task echoes the Context it sees; the owner is known independently via a contextvar bound to the callback's asyncio task; decisive interleavings are forced by slow async dependencies.",
         "ownership monitor (contextvar vs echoed Context) under forced interleavings; gather()/second-broker/forked-id probes"),
 "C07": ("Runtime monitor on the objects handed to the result backend compared with the scripted outcome of each execution (count, id, is_err, value, error class/args, timeout, labels), with injected backend failures.",
         "reference-outcome comparison at the result-backend boundary"),
 "C08": ("Differential runtime check: generated task signatures and argument splits go through the real kicker -> formatter -> Receiver.callback path; received values (named, keyword-only, *args/**kwargs and dependency parameters) are compared (strict type+value) with an independent binding/conversion model.",
         "generated signatures + independent binding model (differential monitor)"),
 "C09": ("Runtime monitor of labels at every delivery (middleware, Context, stored result) through real encode/decode, retries and requeues, and of the task's declared labels after every kicker operation.",
         "end-to-end label history monitor with strict type equality"),
 "C10": ("Runtime monitor: recording middlewares generated per scenario; per-message projection of the trace is matched against the documented hook sequence (client and worker side).",
         "per-message trace projection matched against hook-order specification"),
 "C11": ("Runtime monitor against a 15-line reference model of the retry policy; every attempt goes through a real encode/decode cycle via the looping scripted broker.",
         "reference-model monitor over looped-back retry histories"),
 "C12": ("Runtime monitor: recording dependencies of the four teardown styles in generated DAGs; per-execution oracle on open/close counts, order and position relative to task end, save and ack; known finding F8 (third-party resolver) classified by mechanism.",
         "open/close history oracle over generated dependency graphs"),
 "C13": ("Differential runtime check of the real get_task_delay under a controlled clock against an independent cron matcher on zoneinfo local time, incl. minute-exhaustive DST days.",
         "controlled-clock differential monitor vs independent cron matcher"),
 "C14": ("Runtime check of the real get_task_delay under a controlled clock against exact integer-microsecond arithmetic, boundary-biased.",
         "controlled-clock monitor with exact integer oracle"),
 "C15": ("Runtime monitor: the real run_scheduler_loop runs many virtual minutes with recording sources/broker, injected latencies and failures; oracle over poll instants and per-minute send counts; entered directly, through taskiq.api and through the CLI's run_scheduler (--skip-first-run); known finding F7 classified by mechanism.",
         "virtual-time loop monitoring + per-occurrence send-count oracle"),
 "C16": ("Runtime monitor of on_ready callback sequences and decoded payloads, and of LabelScheduleSource listings before/after firings against a multiset model.",
         "callback-sequence and multiset-model monitor"),
 "C17": ("Fault enumeration: the real ProcessManager runs in a fake process world; all event histories up to the depth bound are enumerated for every max_fails plus random long histories; oracle over the recorded start/terminate/join/is_alive trace.",
         "exhaustive fault-history enumeration in a fake process world (events also injected between any two calls into it) + trace oracle; strace cross-check on real processes (thorough)"),
 "C18": ("Fault enumeration as C17 with the budget/reload/shutdown oracle over return value, is_alive observations, per-tick restarts and os.kill events.",
         "exhaustive fault-history enumeration in a fake process world (events also injected between any two calls into it) + trace oracle; strace cross-check on real processes (thorough)"),
 "C19": ("Runtime check: generated exception graphs go through five TaskiqResult round trips (JSON text, JSON dict, python dict, pickle, pickle followed by the model's own validation); oracle for totality, class/args fidelity or accepted stand-in, and cause/context/suppress along a path-set walk; known finding F9 classified by mechanism.",
         "generated object graphs + round-trip oracle"),
 "C20": ("Runtime sanitizer: sys.monitoring CALL events from taskiq code objects, self-recording traps, import audit hook while crafted payloads are loaded through three entry points.",
         "sys.monitoring call sanitizer + trap objects + import audit hook"),
}
NOTE = ("Trusted base: CPython 3.12 asyncio semantics as preserved by the virtual-time SelectorEventLoop subclass (FIFO ready queue, "
        "timer order), the recording wrappers at taskiq's public extension points, and the offline oracle code; third-party "
        "packages in /venv (pydantic, anyio, taskiq_dependencies, pycron, pytz) are part of the observed system. Evidence covers "
        "only the executions produced.")

def main():
    props = [json.loads(l)["id"] for l in open("/verif/properties.jsonl")]
    checks = []
    for p in props:
        lvl, ref = LEVEL[p]
        checks.append({
            "property_id": p,
            "quick_cmd": f"/venv/bin/python check.py {p} --tier quick",
            "thorough_cmd": f"/venv/bin/python check.py {p} --tier thorough",
            "evidence_file": f"/verif/evidence/{p}.json",
            "replay_cmd_template": f"/venv/bin/python check.py {p} --replay {{path}}",
            "engine": "mon",
            "level_claimed": {"category": lvl, "text": TEXT[p][0], "design_ref": f"DESIGN.md section {ref}"},
            "level_note": NOTE,
            "technique": "runtime monitoring: " + TEXT[p][1],
        })
    m = {
        "version": 1,
        "setup_cmd": "mkdir -p evidence replays .work && /venv/bin/python -m compileall -q mon check.py",
        "hooks": {
            "guard": "TASKIQ_VERIF",
            "enable": "n/a - no hook is compiled into /repo: monitors attach at public extension points (AsyncBroker, AckableMessage.ack, "
                      "AsyncResultBackend, TaskiqMiddleware, TaskiqDepends, ScheduleSource, Receiver subclass) and rebind imported module "
                      "globals (process_manager: Process/Queue/Event/sleep/os/signal/current_process and, if present, monotonic/perf_counter/time; scheduler run: datetime) at run time; checks import "
                      "taskiq from $VERIF_REPO (default /repo) working tree",
            "baseline_off_cmd": "cd /repo && /venv/bin/python -m pytest -ra -q -p no:cacheprovider --timeout=900 --continue-on-collection-errors",
            "source_commits": [],
            "add_only": True,
        },
        "engines": [{"name": "mon", "path": "/verif/mon", "serves_properties": props,
                     "kind_free_text": "runtime monitoring framework: virtual-time asyncio loop, scripted broker/recording wrappers, "
                                       "generators, offline trace oracles, sharded runner, evidence writer"}],
        "checks": checks,
        "not_applicable": [],
        "notes": "Exit codes: 0 held, 1 VIOLATION (replay written), 2 INCONCLUSIVE (monitor floor not reached / watchdog / harness error). "
                 "Known findings live in /verif/known_findings.json; fix: commits in /repo repaired F1-F5 and F12.",
    }
    json.dump(m, open("/verif/MANIFEST.json", "w"), indent=1)

main()
