#!/venv/bin/python
"""Entry point:  check.py <Cxx> [--tier quick|thorough] [--seed N] [--replay FILE].

Exit 0 = held on everything explored, 1 = VIOLATION (line printed), 2 = INCONCLUSIVE.
The code under test is imported from $VERIF_REPO (default /repo) working tree.
"""
from __future__ import annotations

import argparse
import json
import logging
import os
import sys

VERIF = os.path.dirname(os.path.abspath(__file__))
REPO = os.environ.get("VERIF_REPO", "/repo")
sys.path.insert(0, VERIF)
sys.path.insert(0, REPO)
sys.dont_write_bytecode = True

REGISTRY = {
    "C01": ("mon.worker_checks", "C01"),
    "C02": ("mon.worker_checks", "C02"),
    "C03": ("mon.worker_checks", "C03"),
    "C04": ("mon.worker_checks", "C04"),
    "C05": ("mon.worker_checks", "C05"),
    "C06": ("mon.worker_checks", "C06"),
    "C07": ("mon.worker_checks", "C07"),
    "C08": ("mon.args_labels", "C08"),
    "C09": ("mon.labels_check", "C09"),
    "C10": ("mon.worker_checks", "C10"),
    "C11": ("mon.retry_check", "C11"),
    "C12": ("mon.worker_checks", "C12"),
    "C13": ("mon.sched", "C13"),
    "C14": ("mon.sched", "C14"),
    "C15": ("mon.sched_loop", "C15"),
    "C16": ("mon.sched_loop", "C16"),
    "C17": ("mon.procman", "C17"),
    "C18": ("mon.procman", "C18"),
    "C19": ("mon.excser", "C19"),
    "C20": ("mon.excser", "C20"),
}


def load(pid: str):
    import importlib

    import taskiq  # noqa: F401

    got = os.path.realpath(os.path.dirname(os.path.dirname(taskiq.__file__)))
    if got != os.path.realpath(REPO):
        print(f"INCONCLUSIVE property={pid} reason=taskiq imported from {got}, not {REPO}")
        sys.exit(2)
    modname, cls = REGISTRY[pid]
    mod = importlib.import_module(modname)
    return getattr(mod, cls)()


def main() -> int:
    ap = argparse.ArgumentParser()
    ap.add_argument("pid")
    ap.add_argument("--tier", default=os.environ.get("VERIF_TIER", "quick"))
    ap.add_argument("--seed", type=int, default=int(os.environ.get("VERIF_SEED", "0")))
    ap.add_argument("--shard")
    ap.add_argument("--out")
    ap.add_argument("--replay")
    a = ap.parse_args()
    logging.disable(logging.CRITICAL)
    import warnings

    warnings.simplefilter("ignore")
    check = load(a.pid)
    from mon import runner

    if a.replay:
        with open(a.replay) as f:
            w = json.load(f)
        cr = check.run_case(w["spec"])
        print(json.dumps({"trace": cr.trace, "violations": [v.to_json() for v in cr.violations]},
                         indent=1, default=repr))
        return 1 if cr.violations else 0
    if a.shard:
        i, n = a.shard.split("/")
        runner.run_shard(check, a.tier, a.seed, int(i), int(n), a.out)
        return 0
    return runner.main_run(check, a.tier, a.seed)


if __name__ == "__main__":
    sys.exit(main())
