#!/venv/bin/python
"""Mutation self-test of the monitors.

For every mutant (a small property-breaking edit of taskiq, given as (file, old, new) string
replacements) a scratch copy of /repo/taskiq is made outside /repo and /verif, the edit is applied,
the property's quick check is run with VERIF_REPO pointing at the copy, and an *unlisted* VIOLATION
(exit code 1) is expected.  The scratch copy is removed right after.  Also usable for the seeded
changes under /verif/seeded/<id>/patch.diff (see --seeded).

usage: selftest.py [--only C05] [--seeded] [--jobs 4] [--tier quick]
"""
from __future__ import annotations

import argparse
import json
import os
import shutil
import subprocess
import sys
import tempfile
import time
from concurrent.futures import ThreadPoolExecutor
from typing import Any, Dict, List, Tuple

VERIF = os.path.dirname(os.path.abspath(__file__))
REPO = "/repo"
R = "taskiq/receiver/receiver.py"
PM = "taskiq/cli/worker/process_manager.py"
SR = "taskiq/cli/scheduler/run.py"
SE = "taskiq/serialization.py"

# (mutant id, properties expected to catch it, [(file, old, new), ...], description)
MUTANTS: List[Tuple[str, List[str], List[Tuple[str, str, str]], str]] = [
    ("drop-every-3rd-put", ["C01"], [(R, "                await queue.put(message)\n", "                if fetched_tasks % 3:\n                    await queue.put(message)\n")],
     "prefetcher forgets to hand over every third fetched message"),
    ("sentinel-before-last", ["C01", "C05"], [(R, "                fetched_tasks += 1\n                await queue.put(message)\n", "                fetched_tasks += 1\n                if finish_event.is_set():\n                    await queue.put(QUEUE_DONE)\n                await queue.put(message)\n")],
     "a message fetched while the stop was requested is queued after the shutdown sentinel"),
    ("unknown-task-runs-previous", ["C01"], [(R, "            return\n        logger.debug(\n            \"Function for task %s is resolved. Executing...\",", "            task = next(iter(self.broker.get_all_tasks().values()), None)\n            if task is None:\n                return\n        logger.debug(\n            \"Function for task %s is resolved. Executing...\",")],
     "a message naming an unknown task executes some other task"),
    ("consume-lookahead-on-stop", ["C01", "C05"], [(R, "        current_message.cancel()\n", "        if not current_message.done():\n            try:\n                await asyncio.wait_for(current_message, 0.5)\n            except BaseException:\n                pass\n")],
     "pending look-ahead fetch is awaited (consumed) instead of cancelled on stop; message dropped"),
    ("ack-saved-before-set", ["C02"], [(R, "        try:\n            if not isinstance(result.error, NoResultError):\n                await self.broker.result_backend.set_result(taskiq_msg.task_id, result)\n", "        if self.ack_time == AcknowledgeType.WHEN_SAVED and isinstance(message, AckableMessage):\n            await maybe_awaitable(message.ack())\n            message = message.data\n        try:\n            if not isinstance(result.error, NoResultError):\n                await self.broker.result_backend.set_result(taskiq_msg.task_id, result)\n")],
     "when_saved ack moved above set_result"),
    ("ack-executed-and-saved", ["C02"], [(R, "        if self.ack_time == AcknowledgeType.WHEN_SAVED and isinstance(\n            message,\n            AckableMessage,\n        ):", "        if self.ack_time in (AcknowledgeType.WHEN_SAVED, AcknowledgeType.WHEN_EXECUTED) and isinstance(\n            message,\n            AckableMessage,\n        ):")],
     "when_executed messages acknowledged twice"),
    ("ack-default-received", ["C02"], [(R, "        if self.ack_time == AcknowledgeType.WHEN_RECEIVED and isinstance(", "        if self.ack_time in (AcknowledgeType.WHEN_RECEIVED, AcknowledgeType.WHEN_EXECUTED) and isinstance("),
                                       (R, "        if self.ack_time == AcknowledgeType.WHEN_EXECUTED and isinstance(", "        if False and isinstance(")],
     "when_executed acknowledged before execution"),
    ("ack-skipped-on-backend-failure", ["C02"], [(R, "            if raise_err:\n                raise exc\n", "            return\n")],
     "backend failure skips the when_saved ack"),
    ("sem-release-only-on-success", ["C03"], [(R, "            tasks.discard(task)\n            if self.sem is not None:\n                self.sem.release()", "            tasks.discard(task)\n            if self.sem is not None and task.exception() is None:\n                self.sem.release()")],
     "slot leaked when the callback task ends with an exception (failing hook)"),
    ("sem-acquire-after-get", ["C03", "C04"], [(R, "                if self.sem is not None:\n                    await self.sem.acquire()\n\n                self.sem_prefetch.release()\n                message = await queue.get()\n", "                self.sem_prefetch.release()\n                message = await queue.get()\n                if self.sem is not None and message is not QUEUE_DONE and self.sem.locked():\n                    pass\n                elif self.sem is not None:\n                    await self.sem.acquire()\n")],
     "over-admission: no slot is acquired when all are busy"),
    ("sem-release-twice", ["C03"], [(R, "            if self.sem is not None:\n                self.sem.release()\n\n        while True:", "            if self.sem is not None:\n                self.sem.release()\n                if task.exception() is not None:\n                    self.sem.release()\n\n        while True:")],
     "slot released twice after a failing callback: limit exceeded later"),
    ("prefetch-plus-one", ["C04"], [(R, "        self.sem_prefetch = asyncio.Semaphore(max_prefetch)", "        self.sem_prefetch = asyncio.Semaphore(max_prefetch + 1)")],
     "off-by-one in prefetch semaphore"),
    ("prefetch-release-before-slot", ["C04"], [(R, "                if self.sem is not None:\n                    await self.sem.acquire()\n\n                self.sem_prefetch.release()\n", "                self.sem_prefetch.release()\n                if self.sem is not None:\n                    await self.sem.acquire()\n\n")],
     "prefetch permit returned before owning an execution slot"),
    ("prefetch-no-reacquire", ["C04"], [(R, "                if not done:\n                    self.sem_prefetch.release()\n                    continue", "                if not done:\n                    self.sem_prefetch.release()\n                    self.sem_prefetch.release()\n                    continue")],
     "permit inflation: one extra permit per idle poll"),
    ("api-prefetch-swapped", ["C04"], [("taskiq/api/receiver.py", "                    max_prefetch=max_prefetch,", "                    max_prefetch=max_async_tasks,")],
     "run_receiver_task passes max_async_tasks as max_prefetch"),
    ("api-ack-time-dropped", ["C02"], [("taskiq/api/receiver.py", "                    ack_type=ack_time,", "                    ack_type=None,")],
     "run_receiver_task ignores ack_time"),
    ("wait-without-timeout", ["C05"], [(R, "                        await asyncio.wait(tasks, timeout=self.wait_tasks_timeout)", "                        await asyncio.wait(tasks)")],
     "wait_tasks_timeout ignored"),
    ("break-before-waiting", ["C05"], [(R, "                    if tasks:\n                        logger.info(", "                    if tasks and self.wait_tasks_timeout is not None:\n                        logger.info(")],
     "without wait_tasks_timeout the runner does not wait for running tasks"),
    ("poll-timeout-30", ["C05"], [(R, "done, _ = await asyncio.wait({current_message}, timeout=0.3)", "done, _ = await asyncio.wait({current_message}, timeout=30)")],
     "stop event polled every 30 s instead of 0.3 s"),
    ("max-tasks-off-by-one", ["C05", "C01"], [(R, "                    and fetched_tasks >= self.max_tasks_to_execute\n                ):\n                    # Don't start", "                    and fetched_tasks > self.max_tasks_to_execute\n                ):\n                    # Don't start")],
     "max_tasks_to_execute accepts N+1 messages"),
    ("revert-context-snapshot", ["C06"], [(R, "                dict(broker_ctx),", "                broker_ctx,")],
     "revert of the F4 fix"),
    ("context-per-task-name", ["C06"], [(R, "                    Context: Context(message, self.broker),", "                    Context: self.__dict__.setdefault('_ctx_cache', {}).setdefault(message.task_name, Context(message, self.broker)),")],
     "Context cached per task name"),
    ("result-under-last-id", ["C06", "C07"], [(R, "                await self.broker.result_backend.set_result(taskiq_msg.task_id, result)", "                self._last_id = getattr(self, '_last_id', None) or taskiq_msg.task_id\n                await self.broker.result_backend.set_result(self._last_id if result.is_err else taskiq_msg.task_id, result)")],
     "error results stored under the id of the first message seen"),
    ("except-exception-only", ["C07"], [(R, "        except BaseException as exc:\n            found_exception = exc\n            logger.error(", "        except Exception as exc:\n            found_exception = exc\n            logger.error(")],
     "BaseException outcomes escape run_task"),
    ("drop-wait-for", ["C07"], [(R, "                target_future = asyncio.wait_for(target_future, float(timeout))", "                target_future = asyncio.wait_for(target_future, float(timeout) * 4)")],
     "timeout label not enforced (4x)"),
    ("save-on-noresult", ["C07", "C11"], [(R, "            if not isinstance(result.error, NoResultError):\n", "            if not isinstance(result.error, NoResultError) or result.execution_time >= 0:\n")],
     "result stored even for the no-result signal"),
    ("is-err-false-for-keyerror", ["C07"], [(R, "            is_err=found_exception is not None,", "            is_err=found_exception is not None and not isinstance(found_exception, LookupError),")],
     "is_err false for LookupError outcomes"),
    ("reraise-backend-errors", ["C07"], [(R, "            if raise_err:\n                raise exc\n", "            raise exc\n")],
     "backend errors propagate out of callback"),
    ("parse-kwargs-with-prev-annotation", ["C08"], [("taskiq/receiver/params_parser.py", "                message.kwargs[param_name] = parse_obj_as(annot, value)", "                message.kwargs[param_name] = parse_obj_as(prev_annot if prev_annot is not None else annot, value)"),
                                                    ("taskiq/receiver/params_parser.py", "    argnum = -1\n", "    argnum = -1\n    prev_annot = None\n"),
                                                    ("taskiq/receiver/params_parser.py", "        value = None\n        logger.debug(\"Trying to parse", "        value = None\n        prev_annot, _cur = (locals().get('_last'), annot)\n        _last = annot\n        logger.debug(\"Trying to parse")],
     "keyword arguments parsed with the previous parameter's annotation"),
    ("revert-F18", ["C08"], [("taskiq/receiver/params_parser.py", "        if param.kind != param.KEYWORD_ONLY and argnum < len(message.args):", "        if argnum < len(message.args):")],
     "reverts part of fix 8f08428: keyword-only parameters behind *args are read from the positional arguments again"),
    ("variadic-first-only", ["C08"], [("taskiq/receiver/params_parser.py", "    keys: Any = range(argnum, len(message.args))", "    keys: Any = range(argnum, min(argnum + 1, len(message.args)))")],
     "annotation of *args applied to the first collected value only"),
    ("revert-argnum-fix", ["C08"], [("taskiq/receiver/params_parser.py", "        argnum += 1\n        # If parameter doesn't have an annotation.\n        annot = type_hints.get(param_name)\n        if annot is None:\n            continue\n", "        # If parameter doesn't have an annotation.\n        annot = type_hints.get(param_name)\n        if annot is None:\n            continue\n        argnum += 1\n")],
     "revert of the F1 fix"),
    ("no-prepare-kwargs", ["C08"], [("taskiq/kicker.py", "            formatted_kwargs[kwarg_name] = self._prepare_arg(kwarg_val)", "            formatted_kwargs[kwarg_name] = kwarg_val")],
     "keyword model/dataclass arguments not converted to dict form"),
    ("revert-kicker-copy", ["C09"], [("taskiq/decor.py", "            labels=dict(self.labels),", "            labels=self.labels,")],
     "revert of the F2 fix"),
    ("bool-label-via-bool", ["C09"], [("taskiq/labels.py", "    LabelType.BOOL: lambda x: str(x).lower() == \"true\",", "    LabelType.BOOL: lambda x: bool(x),")],
     "bool labels parsed with bool(str)"),
    ("prepare-label-isinstance", ["C09"], [("taskiq/labels.py", "    var_type = type(label_value)\n    if var_type in (int, str, float, bool):", "    var_type = type(label_value)\n    if isinstance(label_value, int):\n        var_type = int\n    if var_type in (int, str, float, bool):")],
     "bool labels sent as INT"),
    ("revert-requeue-fix", ["C09"], [("taskiq/context.py", "        await self.broker.kick(self.broker.formatter.dumps(message))", "        await self.broker.kick(self.broker.formatter.dumps(self.message))")],
     "revert of the F3 fix"),
    ("post-hooks-reversed", ["C10"], [(R, "        for middleware in self.broker.middlewares:\n            if middleware.__class__.post_execute != TaskiqMiddleware.post_execute:", "        for middleware in reversed(self.broker.middlewares):\n            if middleware.__class__.post_execute != TaskiqMiddleware.post_execute:")],
     "post_execute hooks run in reverse registration order"),
    ("post-send-in-finally", ["C10"], [("taskiq/kicker.py", "        try:\n            await self.broker.kick(self.broker.formatter.dumps(message))\n        except Exception as exc:\n            raise SendTaskError from exc\n\n        for middleware in self.broker.middlewares:\n            if middleware.__class__.post_send != TaskiqMiddleware.post_send:\n                await maybe_awaitable(middleware.post_send(message))\n",
                                       "        try:\n            await self.broker.kick(self.broker.formatter.dumps(message))\n        except Exception as exc:\n            raise SendTaskError from exc\n        finally:\n            for middleware in self.broker.middlewares:\n                if middleware.__class__.post_send != TaskiqMiddleware.post_send:\n                    await maybe_awaitable(middleware.post_send(message))\n")],
     "post_send runs even when the kick failed"),
    ("post-save-outside-if", ["C10"], [(R, "                await self.broker.result_backend.set_result(taskiq_msg.task_id, result)\n\n                for middleware in self.broker.middlewares:\n                    if middleware.__class__.post_save != TaskiqMiddleware.post_save:\n                        await maybe_awaitable(middleware.post_save(taskiq_msg, result))\n",
                                       "                await self.broker.result_backend.set_result(taskiq_msg.task_id, result)\n\n            for middleware in self.broker.middlewares:\n                if middleware.__class__.post_save != TaskiqMiddleware.post_save:\n                    await maybe_awaitable(middleware.post_save(taskiq_msg, result))\n")],
     "post_save runs for no-result outcomes"),
    ("send-error-not-wrapped", ["C10"], [("taskiq/kicker.py", "        except Exception as exc:\n            raise SendTaskError from exc\n", "        except ConnectionError as exc:\n            raise SendTaskError from exc\n")],
     "only ConnectionError is wrapped into SendTaskError"),
    ("retry-lte", ["C11"], [("taskiq/middlewares/retry_middleware.py", "        if retries < max_retries:", "        if retries <= max_retries:")],
     "one retry too many"),
    ("retry-default-label-ignored", ["C11"], [("taskiq/middlewares/retry_middleware.py", "            retry_on_error = self.default_retry_label", "            retry_on_error = False")],
     "default_retry_label ignored"),
    ("retry-on-noresult", ["C11"], [("taskiq/middlewares/retry_middleware.py", "        if isinstance(exception, NoResultError):\n            return\n", "        if isinstance(exception, NoResultError) and not message.labels.get('_retries'):\n            return\n")],
     "no-result re-sent after the first retry"),
    ("retry-new-task-id", ["C11"], [("taskiq/middlewares/retry_middleware.py", "        ).with_task_id(message.task_id)\n", "        )\n")],
     "re-sent message gets a new task id"),
    ("retry-str-false-truthy", ["C11"], [("taskiq/middlewares/retry_middleware.py", "            retry_on_error = retry_on_error.lower() == \"true\"", "            retry_on_error = retry_on_error == \"True\" or retry_on_error == \"true\"")],
     "retry_on_error='TRUE' no longer enables retries"),
    ("post-execute-before-close", ["C12"], [(R, "        # Stop the timer.\n        execution_time = time() - start_time\n        if dep_ctx:", "        # Stop the timer.\n        execution_time = time() - start_time\n        if found_exception is not None:\n            for middleware in self.broker.middlewares:\n                if middleware.__class__.on_error != TaskiqMiddleware.on_error:\n                    pass\n        if dep_ctx and found_exception is not None and not self.propagate_exceptions:\n            dep_ctx_late, dep_ctx = dep_ctx, None\n        else:\n            dep_ctx_late = None\n        if dep_ctx:"),
                                            (R, "        # If exception is found we execute middlewares.\n", "        if dep_ctx_late:\n            asyncio.get_running_loop().call_soon(lambda: asyncio.ensure_future(dep_ctx_late.close(None, None, None)))\n        # If exception is found we execute middlewares.\n")],
     "teardown deferred (after result handling) when the task failed and propagation is off"),
    ("revert-F14", ["C12"], [(R, "            if found_exception is not None and self.propagate_exceptions:", "            if found_exception and self.propagate_exceptions:")],
     "reverts fix da08e2e: falsy task exceptions are not thrown into dependencies"),
    ("propagate-always", ["C12"], [(R, "            if found_exception is not None and self.propagate_exceptions:", "            if found_exception is not None:")],
     "exception thrown into dependencies regardless of propagate_exceptions"),
    ("skip-close-on-noresult", ["C12"], [(R, "            await dep_ctx.close(*args)", "            if not isinstance(found_exception, NoResultError):\n                await dep_ctx.close(*args)")],
     "dependencies never torn down for a no-result outcome"),
    ("worker-signal-handler-keeps-running", ["C05"], [("taskiq/cli/worker/run.py", "        shutdown_event.set()\n", "        pass\n")],
     "`taskiq worker`: the signal handler of the worker process no longer requests the shutdown (only the real-process cross-check runs start_listen with signals)"),
    ("worker-first-signal-is-hard-kill", ["C05"], [("taskiq/cli/worker/run.py", "        if hardkill_counter > args.hardkill_count:", "        if hardkill_counter >= 0:")],
     "`taskiq worker`: the first stop signal already raises KeyboardInterrupt in the worker: accepted messages are abandoned"),
    ("worker-listens-on-private-event", ["C05"], [("taskiq/cli/worker/run.py", "            loop.run_until_complete(receiver.listen(shutdown_event))", "            loop.run_until_complete(receiver.listen(asyncio.Event()))")],
     "`taskiq worker`: the receiver waits on an event nobody sets"),
    ("skip-first-run-ignored", ["C15"], [(SR, "    if args.skip_first_run:", "    if False and args.skip_first_run:")],
     "`taskiq scheduler --skip-first-run` polls and sends at once"),
    ("skip-first-run-always", ["C15"], [(SR, "    if args.skip_first_run:", "    if args.skip_first_run or True:")],
     "`taskiq scheduler` never runs the first partial minute"),
    ("skip-first-run-truncated", ["C15"], [(SR, "        await asyncio.sleep(delay.total_seconds())\n        logger.info(\"First run skipped", "        await asyncio.sleep(delay_secs)\n        logger.info(\"First run skipped")],
     "--skip-first-run waits whole seconds only: the loop starts up to 1 s before the boundary and evaluates the old minute"),
    ("revert-F17", ["C15"], [(SR, "                except (ValueError, ZeroDivisionError):", "                except ValueError:")],
     "reverts fix 424741d: a zero-step cron stops the scheduler loop"),
    ("bad-cron-skips-rest-of-source", ["C15"], [(SR, "                        task.schedule_id,\n                    )\n                    continue", "                        task.schedule_id,\n                    )\n                    break")],
     "an unparsable cron ends the evaluation of its source's remaining schedules for that poll"),
    ("cron-offset-subtracted", ["C13", "C15"], [(SR, "            now += task.cron_offset", "            now -= task.cron_offset")],
     "timedelta offset applied with the wrong sign"),
    ("cron-tz-replace", ["C13"], [(SR, "            now = now.astimezone(pytz.timezone(task.cron_offset))", "            now = now.replace(tzinfo=pytz.timezone(task.cron_offset)).astimezone(pytz.timezone(task.cron_offset))")],
     "zone attached with replace(tzinfo=) (LMT offsets)"),
    ("cron-str-offset-dropped", ["C13"], [(SR, "        elif task.cron_offset and isinstance(task.cron_offset, str):", "        elif task.cron_offset and isinstance(task.cron_offset, str) and '/' not in task.cron_offset[-6:]:")],
     "string offsets ignored for some zone names"),
    ("cronspec-fields-swapped", ["C13"], [("taskiq/scheduler/scheduled_task/cron_spec.py", "{self.minutes} {self.hours} {self.days} {self.months} {self.weekdays}", "{self.minutes} {self.hours} {self.months} {self.days} {self.weekdays}")],
     "CronSpec.to_cron() emits month before day-of-month"),
    ("schedule-by-cron-offset-dropped", ["C13"], [("taskiq/kicker.py", "            cron_offset = cron.offset\n", "            cron_offset = None\n")],
     "schedule_by_cron loses the CronSpec offset"),
    ("schedule-by-time-naive-local", ["C14"], [("taskiq/kicker.py", "            time=time,\n        )\n        await source.add_schedule(scheduled)\n        return CreatedSchedule(self, source, scheduled)\n\n    @classmethod", "            time=time.replace(microsecond=0),\n        )\n        await source.add_schedule(scheduled)\n        return CreatedSchedule(self, source, scheduled)\n\n    @classmethod")],
     "schedule_by_time truncates microseconds of the target time"),
    ("delay-floor", ["C14", "C15"], [(SR, "                return int(delay.total_seconds()) + 1", "                return int(delay.total_seconds())")],
     "delay rounded down: sent up to 1 s early"),
    ("horizon-second-0", ["C14"], [(SR, ".replace(second=1, microsecond=0)", ".replace(second=0, microsecond=0)")],
     "horizon at the minute boundary instead of +1 s"),
    ("naive-as-local", ["C14"], [(SR, "        return time.replace(tzinfo=pytz.UTC)", "        return time.replace(tzinfo=pytz.timezone('Etc/GMT-1'))")],
     "naive target times interpreted in another zone"),
    ("loop-sleep-61", ["C15"], [(SR, "        await asyncio.sleep(delay.total_seconds())\n\n\nasync def run_scheduler(", "        await asyncio.sleep(delay.total_seconds() + (1 if len(running_schedules) > 2 else 0))\n\n\nasync def run_scheduler(")],
     "loop oversleeps by a second when several sends are in flight: drifts off the boundary"),
    ("loop-dies-on-source-error", ["C15"], [(SR, "        logger.debug(exc, exc_info=True)\n        return []", "        logger.debug(exc, exc_info=True)\n        if len(str(exc)) % 2:\n            raise\n        return []")],
     "some source exceptions propagate and kill the loop"),
    ("loop-skip-delay", ["C15"], [(SR, "    if delay > 0:\n        await asyncio.sleep(delay)", "    if delay > 1:\n        await asyncio.sleep(delay)")],
     "delays of one second are not waited"),
    ("on-ready-post-after-cancel", ["C16"], [("taskiq/scheduler/scheduler.py", "            logger.info(\"Scheduled task %s has been cancelled.\", task.task_name)\n", "            logger.info(\"Scheduled task %s has been cancelled.\", task.task_name)\n            await maybe_awaitable(source.post_send(task))\n")],
     "post_send called after a cancelled send"),
    ("on-ready-drop-schedule-id", ["C16"], [("taskiq/scheduler/scheduler.py", "                schedule_id=task.schedule_id,\n", "                schedule_id=task.schedule_id if task.cron else '',\n")],
     "one-shot sends lose their schedule_id label"),
    ("label-source-remove-all", ["C16"], [("taskiq/schedule_sources/label_based.py", "                    task.labels.get(\"schedule\", []).pop(idx)\n                    return", "                    task.labels[\"schedule\"] = [s for s in task.labels.get(\"schedule\", []) if s.get(\"time\") != scheduled_task.time]\n                    return")],
     "all entries with that time removed"),
    ("label-source-any-task", ["C16"], [("taskiq/schedule_sources/label_based.py", "            if scheduled_task.task_name != task_name:\n                continue\n", "")],
     "entry removed from whichever task has that time first"),
    ("pm-start-before-join", ["C17"], [(PM, "        # Waiting worker shutdown.\n        worker.join()\n        event: EventType = Event()\n", "        event: EventType = Event()\n"),
                                       (PM, "        new_process.start()\n        logger.info(f\"Process {new_process.name} restarted", "        new_process.start()\n        worker.join()\n        logger.info(f\"Process {new_process.name} restarted")],
     "replacement started before the old process is joined"),
    ("pm-append-instead-of-replace", ["C17", "C18"], [(PM, "        workers[self.worker_num] = new_process\n", "        workers.append(new_process)\n")],
     "new process appended instead of replacing the slot"),
    ("pm-scan-skips-last", ["C17"], [(PM, "            for worker_num, worker in enumerate(self.workers):\n                if not worker.is_alive():", "            for worker_num, worker in enumerate(self.workers[: max(1, len(self.workers) - 1)] if len(reloaded_workers) else self.workers):\n                if not worker.is_alive():")],
     "after a reload tick the last slot is not health-checked"),
    ("pm-count-reload-all", ["C18"], [(PM, "                    if not action.is_reload_all and self.args.max_fails >= 1:", "                    if self.args.max_fails >= 1:")],
     "reload-all restarts consume the failure budget"),
    ("pm-budget-gt", ["C18"], [(PM, "                        if restarts >= self.args.max_fails:", "                        if restarts > self.args.max_fails:")],
     "budget compared with > instead of >="),
    ("pm-no-dedupe", ["C18"], [(PM, "                    if action.worker_num in reloaded_workers:\n                        continue\n", "")],
     "no per-tick de-duplication of restarts"),
    ("pm-kill-all-known", ["C18"], [(PM, "                        if worker.pid and worker.is_alive():\n                            os.kill(worker.pid, signal.SIGINT)", "                        if worker.pid and worker.is_alive():\n                            os.kill(worker.pid, signal.SIGINT)\n                            if restarts:\n                                os.kill(worker.pid - 1, signal.SIGINT)")],
     "shutdown also signals a pid that is not a current worker"),
    ("pm-revert-F16", ["C18"], [(PM, "                        if worker.pid and worker.is_alive():\n", "                        if worker.pid:\n")],
     "reverts fix 720b973: shutdown signals workers that were found dead and reaped"),
    ("ser-no-seen-guard", ["C19"], [(SE, "    if id(exc) in SEEN_EXCEPTIONS_CACHE:\n        return None\n", "    if id(exc) in SEEN_EXCEPTIONS_CACHE and exc.__cause__ is not exc:\n        return None\n    if exc.__cause__ is exc and len(SEEN_EXCEPTIONS_CACHE) > 3:\n        return None\n")],
     "cycle guard weakened for self-caused exceptions"),
    ("ser-ensure-identity", ["C19"], [(SE, "        except Exception:\n            safe_exc_args.append(safe_repr(arg))", "        except TypeError:\n            safe_exc_args.append(safe_repr(arg))")],
     "only TypeError from the coder is treated as un-encodable"),
    ("ser-suppress-not-restored", ["C19"], [(SE, "    exception.__suppress_context__ = exc.exc_suppress_context\n", "")],
     "suppress-context flag not restored"),
    ("ser-cause-context-swapped", ["C19"], [(SE, "            exc_cause=cause,\n            exc_context=context,", "            exc_cause=context if cause is None else cause,\n            exc_context=context,")],
     "context reported as cause when there is no cause"),
    ("ser-narrow-except", ["C19"], [(SE, "    try:\n        exception = cls(*exc_msg)\n    except Exception:", "    try:\n        exception = cls(*exc_msg)\n    except TypeError:")],
     "only TypeError from the constructor falls back to a generic exception"),
    ("sec-callable-gate", ["C20"], [(SE, "    if not isinstance(cls, type) or not issubclass(cls, BaseException):", "    if not callable(cls) or (isinstance(cls, type) and not issubclass(cls, BaseException) and cls.__module__ != 'trapmod'):")],
     "gate accepts any callable that is not a class (functions get called)"),
    ("sec-import-module", ["C20"], [(SE, "            cls = sys.modules[exc_module]  # type: ignore", "            cls = __import__('importlib').import_module(exc_module)  # type: ignore")],
     "module imported instead of looked up in sys.modules"),
    ("sec-gate-top-level-only", ["C20"], [(SE, "    if not isinstance(cls, type) or not issubclass(cls, BaseException):", "    if (not isinstance(cls, type) or not issubclass(cls, BaseException)) and (exc.exc_cause is not None or exc.exc_context is not None or not callable(cls)):")],
     "gate skipped for callable leaves (payloads without cause/context), e.g. nested ones"),
]


def apply_edits(root: str, edits: List[Tuple[str, str, str]]) -> None:
    for rel, old, new in edits:
        p = os.path.join(root, rel)
        with open(p) as f:
            s = f.read()
        if s.count(old) < 1:
            raise RuntimeError(f"mutant text not found in {rel}: {old[:60]!r}")
        with open(p, "w") as f:
            f.write(s.replace(old, new, 1))


def scratch_copy() -> str:
    d = tempfile.mkdtemp(prefix="verif_mut_", dir="/tmp")
    shutil.copytree(os.path.join(REPO, "taskiq"), os.path.join(d, "taskiq"), ignore=shutil.ignore_patterns("__pycache__"))
    return d


def run_check(pid: str, root: str, tier: str, seed: int = 0, scale: str = "1") -> Tuple[int, str]:
    env = dict(os.environ)
    env["VERIF_REPO"] = root
    env["VERIF_SEED"] = str(seed)
    env["VERIF_SCALE"] = scale
    env["VERIF_NO_EVIDENCE"] = "1"
    env["VERIF_SHARDS"] = env.get("VERIF_SHARDS_SELFTEST", "4")
    r = subprocess.run([sys.executable, os.path.join(VERIF, "check.py"), pid, "--tier", tier],
                       env=env, capture_output=True, text=True, timeout=1800)
    return r.returncode, r.stdout + r.stderr


def compile_ok(root: str) -> bool:
    r = subprocess.run([sys.executable, "-c", "import sys; sys.path.insert(0, sys.argv[1]); import taskiq, taskiq.cli.worker.process_manager, taskiq.cli.scheduler.run", root],
                       capture_output=True, text=True)
    return r.returncode == 0


SEED = [0]


def one_mutant(m: Any, tier: str) -> Dict[str, Any]:
    mid, props, edits, desc = m
    root = scratch_copy()
    res: Dict[str, Any] = {"mutant": mid, "desc": desc, "results": {}}
    try:
        apply_edits(root, edits)
        if not compile_ok(root):
            res["error"] = "mutant does not import"
            return res
        for pid in props:
            t0 = time.time()
            rc, out = run_check(pid, root, tier, SEED[0])
            kinds = [ln.strip() for ln in out.splitlines() if ln.strip().startswith("kind=")]
            res["results"][pid] = {"rc": rc, "caught": rc == 1, "kinds": [k[:160] for k in kinds[:3]], "wall": round(time.time() - t0, 1),
                                   "tail": out[-400:] if rc != 1 else ""}
    except Exception as exc:  # noqa: BLE001
        res["error"] = repr(exc)
    finally:
        shutil.rmtree(root, ignore_errors=True)
    return res


def one_seeded(sd: str, tier: str) -> Dict[str, Any]:
    meta = json.load(open(os.path.join(sd, "meta.json")))
    root = scratch_copy()
    res: Dict[str, Any] = {"mutant": "seeded/" + os.path.basename(sd), "desc": meta.get("summary", ""), "results": {}}
    if meta.get("not_claimed"):
        res["not_claimed"] = meta["not_claimed"]
    try:
        r = subprocess.run(["patch", "-p1", "-s", "-d", root, "-i", os.path.join(sd, "patch.diff")], capture_output=True, text=True)
        if r.returncode != 0:
            res["error"] = "patch failed: " + r.stdout + r.stderr
            return res
        for pid in meta.get("checks", [meta["property"]]):
            t0 = time.time()
            rc, out = run_check(pid, root, tier, SEED[0])
            kinds = [ln.strip() for ln in out.splitlines() if ln.strip().startswith("kind=")]
            res["results"][pid] = {"rc": rc, "caught": rc == 1, "kinds": [k[:160] for k in kinds[:3]], "wall": round(time.time() - t0, 1),
                                   "tail": out[-400:] if rc != 1 else ""}
    finally:
        shutil.rmtree(root, ignore_errors=True)
    return res


def main() -> int:
    ap = argparse.ArgumentParser()
    ap.add_argument("--only")
    ap.add_argument("--seeded", action="store_true")
    ap.add_argument("--jobs", type=int, default=4)
    ap.add_argument("--tier", default="quick")
    ap.add_argument("--out", default=os.path.join(VERIF, "selftest_report.json"))
    ap.add_argument("--seed", type=int, default=0)
    a = ap.parse_args()
    SEED[0] = a.seed
    jobs: List[Any] = []
    if a.seeded:
        sroot = os.path.join(VERIF, "seeded")
        for d in sorted(os.listdir(sroot)):
            sd = os.path.join(sroot, d)
            if os.path.exists(os.path.join(sd, "meta.json")) and (not a.only or any(x in d for x in a.only.split(','))):
                jobs.append(("s", sd))
    else:
        for m in MUTANTS:
            if not a.only or any(x in m[1] or x == m[0] for x in a.only.split(',')):
                jobs.append(("m", m))
    with ThreadPoolExecutor(a.jobs) as ex:
        results = list(ex.map(lambda j: one_mutant(j[1], a.tier) if j[0] == "m" else one_seeded(j[1], a.tier), jobs))
    missed = 0
    for r in results:
        if "error" in r:
            print(f"ERROR  {r['mutant']}: {r['error']}")
            missed += 1
            continue
        for pid, x in r["results"].items():
            flag = "CAUGHT" if x["caught"] else "MISSED"
            if not x["caught"] and r.get("not_claimed"):
                # a seeded change judged to be outside every property (recorded with its reason in meta.json): still run,
                # reported, never counted as caught
                flag = "NOT-CLAIMED"
            elif not x["caught"]:
                missed += 1
            print(f"{flag} {pid} {r['mutant']} rc={x['rc']} {x['wall']}s {x['kinds'][:1]} {x['tail'][-200:] if not x['caught'] else ''}")
    with open(a.out, "w") as f:
        json.dump(results, f, indent=1)
    print(f"{len(results)} mutants, {missed} misses/errors")
    return 1 if missed else 0


if __name__ == "__main__":
    sys.exit(main())
