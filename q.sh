#!/bin/bash
# usage: q.sh "C04 C05" "0 1 2"  [tier]   -- quick scratch runs without touching evidence
cd "$(dirname "$0")"
for p in $1; do for s in ${2:-0}; do
  VERIF_NO_EVIDENCE=1 VERIF_SEED=$s /venv/bin/python check.py $p --tier ${3:-quick} 2>&1 | grep -E '^(RESULT|VIOLATION|INCONCLUSIVE|KNOWN)' | cut -c1-260 | sed "s/^/$p s=$s /"
done; done
