"""C08 (argument binding / round trip) and C09 (labels end to end, kicker isolation)."""
from __future__ import annotations

import asyncio
import copy
import dataclasses
import inspect
import json
import math
import pickle
import random
from concurrent.futures import ThreadPoolExecutor
from typing import Any, Dict, Iterator, List, Optional, Union

import pydantic

from taskiq import AsyncBroker, Context, TaskiqDepends
from taskiq.formatters.json_formatter import JSONFormatter
from taskiq.formatters.proxy_formatter import ProxyFormatter
from taskiq.message import BrokerMessage
from taskiq.receiver import Receiver
from taskiq.serializers.json_serializer import JSONSerializer
from taskiq.serializers.pickle import PickleSerializer

from mon.runner import CaseResult, Check, Violation, jhash
from mon.vloop import run_virtual

# ------------------------------------------------------------------------------------
# shared helpers


class PlainBroker(AsyncBroker):
    def __init__(self) -> None:
        super().__init__()
        self.sent: List[BrokerMessage] = []

    async def kick(self, message: BrokerMessage) -> None:
        self.sent.append(message)

    async def listen(self) -> Any:  # type: ignore[override]
        if False:
            yield b""


def set_format(broker: AsyncBroker, fmt: str) -> None:
    if fmt == "proxy+json":
        broker.serializer = JSONSerializer()
        broker.formatter = ProxyFormatter(broker)
    elif fmt == "proxy+pickle":
        broker.serializer = PickleSerializer()
        broker.formatter = ProxyFormatter(broker)
    elif fmt == "jsonformatter":
        broker.formatter = JSONFormatter()
    else:
        raise ValueError(fmt)


FORMATS = ["proxy+json", "proxy+pickle", "jsonformatter"]


def strict_eq(a: Any, b: Any) -> bool:
    """Equality with identical types, NaN == NaN, -0.0 != 0.0."""
    if type(a) is not type(b):
        return False
    if isinstance(a, float):
        if math.isnan(a) or math.isnan(b):
            return math.isnan(a) and math.isnan(b)
        return a == b and math.copysign(1, a) == math.copysign(1, b)
    if isinstance(a, (list, tuple)):
        return len(a) == len(b) and all(strict_eq(x, y) for x, y in zip(a, b))
    if dataclasses.is_dataclass(a) and not isinstance(a, type):
        return all(strict_eq(getattr(a, f.name), getattr(b, f.name)) for f in dataclasses.fields(a))  # every field, compare=False too
    if isinstance(a, dict):
        return list(a.keys()) == list(b.keys()) and all(strict_eq(a[k], b[k]) for k in a) \
            if set(a) == set(b) and len(a) == len(b) and all(strict_eq(a[k], b[k]) for k in a) else False
    return a == b


def jsonable(v: Any) -> Any:
    if isinstance(v, bytes):
        return {"__bytes__": v.hex()}
    if isinstance(v, float) and (math.isnan(v) or math.isinf(v)):
        return {"__float__": repr(v)}
    if isinstance(v, int) and not isinstance(v, bool) and abs(v) > 2 ** 63:
        return {"__bigint_bits__": v.bit_length(), "sign": -1 if v < 0 else 1}
    if isinstance(v, (list, tuple)):
        return [jsonable(x) for x in v]
    if isinstance(v, dict):
        return {str(k): jsonable(x) for k, x in v.items()}
    if isinstance(v, (str, int, float, bool)) or v is None:
        return v
    return repr(v)


# ------------------------------------------------------------------------------------
# C08


class Model(pydantic.BaseModel):
    x: int
    name: str = "n"
    tags: List[str] = []


class Inner(pydantic.BaseModel):
    v: float
    m: Optional[Model] = None


class Aliased(pydantic.BaseModel):
    """A model whose fields have aliases: its dict form is keyed by the field names."""

    model_config = pydantic.ConfigDict(populate_by_name=True)

    user_id: int = pydantic.Field(alias="userId")
    note: str = pydantic.Field(default="n", serialization_alias="Note")


@dataclasses.dataclass
class DC:
    a: int
    b: str = "b"


@dataclasses.dataclass
class DC2:
    items: List[int]
    inner: Optional[DC] = None


@dataclasses.dataclass(frozen=True)
class DCF:
    """Hashable, compared by key only: two instances can be equal and still carry different content."""

    key: int
    payload: str = dataclasses.field(default="", compare=False)


def _make_payload(t: Any) -> Any:
    class Payload(pydantic.BaseModel):
        value: t  # type: ignore[valid-type]

    return Payload


def _make_row(t: Any) -> Any:
    @dataclasses.dataclass
    class Row:
        id: t  # type: ignore[valid-type]
        note: str = "n/a"

    return Row


# distinct classes that share module, name and qualname (classes made by a factory, re-defined classes)
PayloadI = _make_payload(int)
PayloadS = _make_payload(str)
PayloadL = _make_payload(List[int])
RowI = _make_row(int)
RowS = _make_row(str)

ANNOTS: Dict[str, Any] = {
    "PayloadI": PayloadI, "PayloadS": PayloadS, "PayloadL": PayloadL, "RowI": RowI, "RowS": RowS,
    "List[PayloadI]": List[PayloadI], "List[PayloadS]": List[PayloadS],
    "Union[bool, int, float]": Union[bool, int, float], "Union[int, str]": Union[int, str],
    "none": None, "Any": Any, "int": int, "str": str, "float": float, "bool": bool,
    "List[int]": List[int], "Optional[int]": Optional[int], "Dict[str, int]": Dict[str, int],
    "Model": Model, "Inner": Inner, "DC": DC, "DC2": DC2, "DCF": DCF, "Optional[Model]": Optional[Model], "Aliased": Aliased,
    "Optional[Union[int, Model]]": Optional[Union[int, Model]], "Union[int, str, None]": Union[int, str, None],
    "List[Model]": List[Model],
}


def gen_json_tree(rng: random.Random, depth: int = 0) -> Any:
    r = rng.random()
    if depth >= 3 or r < 0.55:
        return rng.choice([
            None, True, False, 0, 1, -1, 7, 2 ** 62, -(2 ** 70), 10 ** 30, 0.5, -2.25, 1e300, 5e-324, 1e-7, 0.1,
            "", "a", "5", "abc", "ünï©ødé ∆ 𝄞", "line\nbreak\t\"q\"\\", "\x00\x1f", " 12 ", "true", "null",
            # strings whose text happens to be JSON: they are strings, not documents
            '{"a": 1}', '["x", "y"]', "[]", "{}", "[1, 2]", '"q"', '{"k": {"n": 1}}', "[7]",
        ])
    if r < 0.8:
        return [gen_json_tree(rng, depth + 1) for _ in range(rng.randint(0, 4))]
    return {rng.choice(["k", "a b", "", "ключ", "0", "nested"]) + str(i): gen_json_tree(rng, depth + 1)
            for i in range(rng.randint(0, 3))}


def enc(v: Any) -> Any:
    """Instances -> tagged JSON so that specs stay plain data."""
    if isinstance(v, pydantic.BaseModel):
        return {"$inst": type(v).__name__, "kw": {k: enc(getattr(v, k)) for k in type(v).model_fields if k in v.model_fields_set}}
    if dataclasses.is_dataclass(v) and not isinstance(v, type):
        return {"$inst": type(v).__name__, "kw": {f.name: enc(getattr(v, f.name)) for f in dataclasses.fields(v)}}
    if isinstance(v, list):
        return [enc(x) for x in v]
    if isinstance(v, dict):
        return {k: enc(x) for k, x in v.items()}
    return v


def dec(v: Any) -> Any:
    if isinstance(v, dict):
        if "$inst" in v:
            cls = {"Model": Model, "Inner": Inner, "DC": DC, "DC2": DC2, "DCF": DCF, "Aliased": Aliased}[v["$inst"]]
            return cls(**{k: dec(x) for k, x in v["kw"].items()})
        return {k: dec(x) for k, x in v.items()}
    if isinstance(v, list):
        return [dec(x) for x in v]
    return v


def gen_value_for(rng: random.Random, ann: str) -> Any:
    return enc(_gen_value_for(rng, ann))


def _gen_value_for(rng: random.Random, ann: str) -> Any:
    r = rng.random()
    if r < 0.07:
        return None
    if ann in ("none", "Any"):
        c = rng.random()
        if c < 0.15:
            return Model(x=rng.randint(-5, 5), name=rng.choice(["n", "ü"]), tags=["t"] * rng.randint(0, 2))
        if c < 0.25:
            return DC(a=rng.randint(0, 9), b="q")
        if c < 0.3:
            return DC2(items=[1, 2], inner=DC(a=1))
        if c < 0.33:
            return DCF(key=rng.choice([1, True, 2]), payload=rng.choice(["first", "second", "third"]))
        if c < 0.36:
            return Aliased(userId=rng.randint(1, 9))
        if c < 0.35:
            return Inner(v=1.5, m=Model(x=1))
        return gen_json_tree(rng)
    if ann == "int":
        return rng.choice([0, 5, -3, 2 ** 65, "5", "-12", " 7 ", "abc", "5.0", "5.5", 3.0, 3.5, True, [1], {"a": 1}, ""])
    if ann == "str":
        return rng.choice(["", "s", "ü∆", 5, 1.5, True, ["a"], {"k": "v"}])
    if ann == "float":
        return rng.choice([0.5, -1.25, 3, "2.5", "1e3", "x", True, [1.0], "nan-not"])
    if ann == "bool":
        return rng.choice([True, False, "true", "false", "yes", "no", "maybe", 1, 0, 2, "1", 0.0])
    if ann == "List[int]":
        return rng.choice([[], [1, 2], ["1", "2"], [1, "x"], "12", [1.0, 2.0], [[1]], {"a": 1}, 5])
    if ann == "Optional[int]":
        return rng.choice([1, "2", "x", 2.0, [1]])
    if ann == "Dict[str, int]":
        return rng.choice([{}, {"a": 1}, {"a": "2"}, {"a": "x"}, [["a", 1]], 5])
    if ann in ("Model", "Optional[Model]"):
        return rng.choice([Model(x=1), Model(x=2, name="ü", tags=["a", "b"]), {"x": 3}, {"x": "4", "name": "z"},
                           {"x": "bad"}, {"name": "no x"}, 5, "str", [], {"x": 1, "extra": 2}])
    if ann == "Inner":
        return rng.choice([Inner(v=1.0), Inner(v=2.5, m=Model(x=1)), {"v": "3.5"}, {"v": 1, "m": {"x": 2}},
                           {"v": "bad"}, {"m": None}, 7])
    if ann == "DC":
        return rng.choice([DC(a=1), DC(a=2, b="ü"), {"a": 3}, {"a": "4", "b": "x"}, {"a": "bad"}, {"b": "only"}, 5, []])
    if ann == "Aliased":
        return rng.choice([Aliased(userId=7), Aliased(user_id=9, note="q"), {"user_id": "3"}, {"userId": 4}, {"note": "only"}, 5])
    if ann == "Optional[Union[int, Model]]":
        return rng.choice([5, "7", Model(x=1), {"x": 2, "name": "q"}, {"x": "bad"}, "str", 2.0])
    if ann == "Union[int, str, None]":
        return rng.choice([5, "5", "abc", 1.5, True, [1]])
    if ann == "DCF":
        return rng.choice([DCF(key=1, payload="first"), DCF(key=1, payload="second"), DCF(key=True, payload="third"), DCF(key=2),
                           {"key": "1", "payload": "p"}, {"key": "x"}, 4])
    if ann == "DC2":
        return rng.choice([DC2(items=[1]), DC2(items=[], inner=DC(a=1)), {"items": ["1", 2]}, {"items": "x"},
                           {"items": [1], "inner": {"a": 2}}, 3])
    if ann in ("PayloadI", "PayloadS", "PayloadL"):
        return rng.choice([{"value": "5"}, {"value": 7}, {"value": ["1", "2"]}, {"value": "x"}, {"value": [1]}, 3])
    if ann in ("RowI", "RowS"):
        return rng.choice([{"id": "7"}, {"id": 7}, {"id": "x", "note": "k"}, {"note": "only"}, []])
    if ann in ("List[PayloadI]", "List[PayloadS]"):
        return rng.choice([[], [{"value": "5"}], [{"value": 5}, {"value": "6"}], [{"value": "x"}], "no"])
    if ann in ("Union[bool, int, float]", "Union[int, str]"):
        return rng.choice([True, False, 1, 0, 1.0, 0.0, "1", "x", 2, 2.0, -0.0])
    if ann == "List[Model]":
        return rng.choice([[], [{"x": 1, "name": "n", "tags": []}], [{"x": 1}, {"x": "2"}], [{"x": "bad"}], [5], "x"])
    raise KeyError(ann)


def gen_c08_case(rng: random.Random) -> Dict[str, Any]:
    n = rng.randint(1, 6)
    params = []
    kwonly_from = rng.choice([None, None, None] + list(range(0, n + 1)))
    had_default = False
    dep_positions = set()
    ndeps = rng.choice([0, 0, 1, 2])
    total = n + ndeps
    slots = list(range(total))
    for _ in range(ndeps):
        dep_positions.add(rng.choice(slots))
    pi = 0
    for pos in range(total):
        is_dep = pos in dep_positions
        kwonly = kwonly_from is not None and pos >= kwonly_from
        if is_dep:
            kind = rng.choice(["ctx", "dep", "dep_ann", "dep_int"])
            params.append({"name": f"d{pos}", "dep": kind, "kwonly": kwonly, "default": True})
            if not kwonly:
                had_default = True
            continue
        ann = rng.choice(list(ANNOTS))
        if rng.random() < 0.35:
            ann = "none"
        default = had_default and not kwonly or rng.random() < 0.25
        if default and not kwonly:
            had_default = True
        name = f"p{pi}"
        if rng.random() < 0.08:
            # names that the sending side also uses for something of its own
            cand = [x for x in ("task_id", "labels", "message", "broker", "timeout", "schedule_id", "source", "time", "cron")
                    if x not in [q["name"] for q in params]]
            if cand:
                name = rng.choice(cand)
        params.append({"name": name, "ann": ann, "kwonly": kwonly, "default": bool(default)})
        if default and ann == "none" and rng.random() < 0.4:
            # a default says nothing about the type of what callers send
            params[-1]["default_val"] = rng.choice([3, 2.5, False, 0])
        elif default and ann in ("int", "float", "bool") and rng.random() < 0.5:
            # an annotated parameter with a default of its type
            params[-1]["default_val"] = {"int": rng.choice([0, 3, 1]), "float": rng.choice([1.0, 0.0, 3.0, 0.5]), "bool": rng.choice([True, False])}[ann]
        pi += 1
    # supplied arguments
    positional_ok = []
    for p in params:
        if p["kwonly"] or p.get("dep"):
            break
        positional_ok.append(p["name"])
    npos = rng.randint(0, len(positional_ok))
    supplied = {}
    for p in params:
        if p.get("dep") in ("dep", "dep_ann") and rng.random() < 0.15:
            # the caller binds a value to a parameter that has a dependency default: the sent value must win
            supplied[p["name"]] = {"v": rng.choice(["sent-value", "", "0", "dep-value-not"]), "pos": False}
            continue
        if p.get("dep") == "dep_int" and rng.random() < 0.3:
            # ... and is converted to the annotation like any other sent value
            supplied[p["name"]] = {"v": gen_value_for(rng, "int"), "pos": False}
            continue
        if p.get("dep"):
            continue
        pos_idx = positional_ok.index(p["name"]) if p["name"] in positional_ok else None
        positional = pos_idx is not None and pos_idx < npos
        if positional or not p["default"] or rng.random() < 0.7:
            supplied[p["name"]] = {"v": gen_value_for(rng, p["ann"]), "pos": positional}
            dv = p.get("default_val")
            if dv is not None and p.get("ann") in ("int", "float", "bool") and rng.random() < 0.5:
                # the caller sends a value that compares equal to the default but is of another type (0.0 for 0, 1 for
                # 1.0 or True): it is a sent value like any other
                alt = {"int": float(dv), "float": int(dv) if float(dv).is_integer() else dv, "bool": int(dv)}[p["ann"]]
                supplied[p["name"]]["v"] = enc(alt)
    variadic: Dict[str, Any] = {}
    if rng.random() < 0.2:
        simple = ["none", "none", "int", "float", "str", "Any", "Model", "List[int]"]
        nonkw = [p for p in params if not p["kwonly"]]
        if rng.random() < 0.7 and not any(p.get("dep") for p in nonkw):
            # def f(a, b, *rest, k=...): every named positional parameter is filled positionally, the rest is collected
            for p in nonkw:
                if p["name"] not in supplied:
                    supplied[p["name"]] = {"v": gen_value_for(rng, p["ann"]), "pos": True}
                supplied[p["name"]]["pos"] = True
            ann = rng.choice(simple)
            variadic["star"] = {"ann": ann, "vals": [gen_value_for(rng, ann) for _ in range(rng.randint(0, 3))]}
        if rng.random() < 0.6:
            ann = rng.choice(simple)
            variadic["dstar"] = {"ann": ann, "vals": {f"zz{i}": gen_value_for(rng, ann) for i in range(rng.randint(0, 2))}}
    posonly = 0
    if npos and rng.random() < 0.15:
        posonly = rng.randint(1, npos)  # def f(a, b, /, c, ...): the first parameters are positional-only (and sent so)
    return {
        "variadic": variadic, "posonly": posonly, "via_kiq": rng.random() < 0.2,
        "params": params, "supplied": supplied, "async": rng.random() < 0.6,
        "validate": rng.random() < 0.75, "fmt": rng.choice(FORMATS), "late_register": rng.random() < 0.3,
        # an earlier message for the same task on the same worker whose values cannot be converted
        "prior_inconvertible": rng.random() < 0.2,
        # a shared-registry task of the same name with other annotations (the worker's own task has priority)
        "shadow_shared": rng.random() < 0.15,
        # the task function is wrapped by a user decorator written with functools.wraps and (*args, **kwargs)
        "wrapped": rng.random() < 0.12,
        # typed labels on the send (the message carries their text form plus a type table)
        "labels": rng.choice([None, None, None, {"priority": 5}, {"ratio": 0.5, "urgent": True}, {"n": 0, "tag": "x", "flag": False}]),
        "via_inmem": rng.choice([None, None, None, None, None, None, "startup", "plain"]),
        "redeliver": rng.random() < 0.15,
    }


_REC: List[Any] = []


def _dep_plain() -> str:
    return "dep-value"


def _dep_int() -> int:
    return 7


def _scribble(v: Any, depth: int = 0) -> None:
    """In-place edits of every list / dict reachable from the received arguments."""
    if depth > 6:
        return
    if isinstance(v, dict):
        for x in list(v.values()):
            _scribble(x, depth + 1)
        try:
            v["scribbled"] = True
        except Exception:  # noqa: BLE001
            pass
    elif isinstance(v, list):
        for x in v:
            _scribble(x, depth + 1)
        v.append("scribbled")


def build_fn(case: Dict[str, Any]) -> Any:
    ns: Dict[str, Any] = {"Any": Any, "List": List, "Optional": Optional, "Dict": Dict, "Union": Union, "Model": Model,
                          "Inner": Inner, "DC": DC, "DC2": DC2, "DCF": DCF, "Aliased": Aliased, "Context": Context, "PayloadI": PayloadI,
                          "PayloadS": PayloadS, "PayloadL": PayloadL, "RowI": RowI, "RowS": RowS, "TaskiqDepends": TaskiqDepends,
                          "_REC": _REC, "_dep_plain": _dep_plain, "_dep_int": _dep_int, "int": int, "str": str, "float": float, "bool": bool}
    parts = []
    star_done = False
    names = []
    va = case.get("variadic") or {}

    def _star() -> str:
        if "star" not in va:
            return "*"
        a = va["star"]["ann"]
        return "*rest" if a == "none" else f"*rest: {a}"

    for p in case["params"]:
        if p["kwonly"] and not star_done:
            parts.append(_star())
            star_done = True
        if p.get("dep") == "ctx":
            parts.append(f"{p['name']}: Context = TaskiqDepends()")
        elif p.get("dep") == "dep":
            parts.append(f"{p['name']}=TaskiqDepends(_dep_plain)")
            names.append(p["name"])
        elif p.get("dep") == "dep_ann":
            parts.append(f"{p['name']}: str = TaskiqDepends(_dep_plain)")
            names.append(p["name"])
        elif p.get("dep") == "dep_int":
            parts.append(f"{p['name']}: int = TaskiqDepends(_dep_int)")
            names.append(p["name"])
        else:
            a = "" if p["ann"] == "none" else f": {p['ann']}"
            d = f" = {p.get('default_val', 'DEFAULT')!r}" if p["default"] else ""
            parts.append(f"{p['name']}{a}{d}")
            names.append(p["name"])
            if case.get("posonly") and len(names) == case["posonly"] and "/" not in parts:
                parts.append("/")
    if "star" in va and not star_done:
        parts.append(_star())
    if "dstar" in va:
        a = va["dstar"]["ann"]
        parts.append("**extra" if a == "none" else f"**extra: {a}")
    body = "{" + ", ".join([f"{n!r}: {n}" for n in names] + (["'*rest': list(rest)"] if "star" in va else [])
                           + (["'**extra': dict(extra)"] if "dstar" in va else [])) + "}"
    rec_line = f"_REC.append({body})"
    if case.get("redeliver"):
        # the function works on its arguments in place (pops items off a list argument, adds a key to a dict one) after
        # a copy of what it received was recorded
        rec_line = f"_got = {body}; _REC.append(_copy.deepcopy(_got)); _scribble(_got)"
        ns["_copy"] = __import__("copy")
        ns["_scribble"] = _scribble
    src = f"{'async ' if case['async'] else ''}def gen_task({', '.join(parts)}):\n    {rec_line}\n    return 1\n"
    exec(src, ns)  # noqa: S102
    fn = ns["gen_task"]
    fn.__module__ = "mon.args_labels"
    if case.get("wrapped"):
        import functools

        inner = fn
        if case["async"]:
            @functools.wraps(inner)
            async def traced(*args: Any, **kwargs: Any) -> Any:
                return await inner(*args, **kwargs)
        else:
            @functools.wraps(inner)
            def traced(*args: Any, **kwargs: Any) -> Any:
                return inner(*args, **kwargs)
        fn = traced
    return fn, src


def prepared(v: Any) -> Any:
    """Independent model of the documented client-side conversion: models/dataclasses -> dict form."""
    if isinstance(v, pydantic.BaseModel):
        return json.loads(v.model_dump_json())
    if dataclasses.is_dataclass(v) and not isinstance(v, type):
        return dataclasses.asdict(v)
    return v


def wire(v: Any, fmt: str) -> Any:
    if fmt == "proxy+pickle":
        return copy.deepcopy(v)
    return json.loads(json.dumps(v))


def expected_value(ann: str, sent: Any, fmt: str, validate: bool) -> Any:
    w = wire(prepared(sent), fmt)
    if w is None or not validate or ann in ("none", "Any"):
        return w
    try:
        return pydantic.TypeAdapter(ANNOTS[ann]).validate_python(w)
    except (ValueError, RuntimeError):
        return w


_EXEC = ThreadPoolExecutor(2)


def run_c08(case: Dict[str, Any]) -> "tuple[List[Violation], Dict[str, Any]]":
    v: List[Violation] = []
    fn, src = build_fn(case)
    broker: Any = PlainBroker()
    if case.get("via_inmem"):
        # the bundled in-memory broker with its own receiver (cast_types is its name for parsing on/off), started the
        # way applications start brokers
        from taskiq import InMemoryBroker

        broker = InMemoryBroker(cast_types=case["validate"])
    set_format(broker, case["fmt"])
    early_receiver = None
    if case.get("late_register") and not case.get("via_inmem"):
        # the receiver exists before the task is registered (dynamic registration / InMemoryBroker)
        early_receiver = Receiver(broker, executor=_EXEC, validate_params=case["validate"], max_async_tasks=1, run_startup=False)
    shadow_registered = False
    if case.get("shadow_shared") and not case.get("late_register"):
        from taskiq.brokers.shared_broker import AsyncSharedBroker

        names_ = [p["name"] for p in case["params"]]
        ns2: Dict[str, Any] = {}
        exec("def gen_task(" + ", ".join(f"{n}: float = 0.5" for n in names_) + "):\n    raise RuntimeError('shared shadow executed')\n", ns2)  # noqa: S102
        ns2["gen_task"].__module__ = "mon.args_labels"
        AsyncSharedBroker().register_task(ns2["gen_task"], task_name="gen_task")
        shadow_registered = True
    try:
        return _run_c08_inner(case, fn, src, broker, early_receiver, v)
    finally:
        if case.get("via_inmem"):
            broker.executor.shutdown(wait=False)
        if shadow_registered:
            from taskiq.abc.broker import AsyncBroker as _AB

            _AB.global_task_registry.pop("gen_task", None)


def _run_c08_inner(case: Dict[str, Any], fn: Any, src: str, broker: Any, early_receiver: Any, v: List[Violation]) -> "tuple[List[Violation], Dict[str, Any]]":
    task = broker.register_task(fn, task_name="gen_task")
    args = []
    kwargs = {}
    for p in case["params"]:
        s = case["supplied"].get(p["name"])
        if s is None:
            continue
        if s["pos"]:
            args.append(dec(s["v"]))
        else:
            kwargs[p["name"]] = dec(s["v"])
    va = case.get("variadic") or {}
    if "star" in va:
        args.extend(dec(x) for x in va["star"]["vals"])
    if "dstar" in va:
        kwargs.update({k: dec(x) for k, x in va["dstar"]["vals"].items()})
    obs: Dict[str, Any] = {"src": src.splitlines()[0], "args": jsonable([prepared(a) for a in args]),
                           "kwargs": jsonable({k: prepared(x) for k, x in kwargs.items()})}
    try:
        kicker = task.kicker()
        if case.get("labels"):
            kicker = kicker.with_labels(**case["labels"])
        if case.get("via_kiq") and not case.get("via_inmem"):
            # the whole public send path: task.kicker()...kiq(...) on a broker that records what it is handed
            async def _kiq(loop: Any) -> None:
                await kicker.kiq(*args, **kwargs)
            n0 = len(broker.sent)
            run_virtual(_kiq)
            bm = broker.sent[n0]
            back = broker.formatter.loads(bm.message)
            msg = back
        else:
            msg = kicker._prepare_message(*args, **kwargs)
            bm = broker.formatter.dumps(msg)
            back = broker.formatter.loads(bm.message)
    except Exception as exc:  # noqa: BLE001
        v.append(Violation("encode-decode-raised", f"{case['fmt']}: {type(exc).__name__}: {exc} for args={args!r} kwargs={kwargs!r}"))
        return v, obs
    if back != msg:
        v.append(Violation("roundtrip-mismatch", f"{case['fmt']}: loads(dumps(m)) != m: {back!r} vs {msg!r}"))
    # independent check of the wire content against what was sent
    want_args = [wire(prepared(a), case["fmt"]) for a in args]
    want_kwargs = {k: wire(prepared(x), case["fmt"]) for k, x in kwargs.items()}
    if not strict_eq(back.args, want_args) or not strict_eq(back.kwargs, want_kwargs):
        v.append(Violation("wire-content", f"decoded args/kwargs {back.args!r} {back.kwargs!r} != sent {want_args!r} {want_kwargs!r}"))
    receiver: Any = None
    if not case.get("via_inmem"):
        receiver = early_receiver or Receiver(broker, executor=_EXEC, validate_params=case["validate"], max_async_tasks=1, run_startup=False)
    del _REC[:]
    prior = None
    if case.get("prior_inconvertible"):
        weird = ["inconvertible", {"x": None}]
        pk = {p["name"]: weird for p in case["params"] if not p.get("dep") and (p["name"] in case["supplied"] or not p["default"])}
        prior = broker.formatter.dumps(task.kicker()._prepare_message(**pk)).message

    async def main(loop: Any) -> None:
        nonlocal receiver
        if case.get("via_inmem"):
            if case["via_inmem"] == "startup":
                await broker.startup()
            receiver = broker.receiver  # whatever receiver the broker holds now
        if prior is not None:
            await receiver.callback(prior)
            del _REC[:]
        await receiver.callback(bm.message)
        if case.get("redeliver") and len(_REC) == 1:
            # the broker delivers the same bytes once more (at-least-once delivery, a re-sent call): a message of its own
            first_rec = _REC.pop()
            await receiver.callback(bytes(bm.message))
            if len(_REC) == 1 and not strict_eq(_REC[0], first_rec):
                v.append(Violation("redelivery-differs", f"{case['fmt']}: the same bytes delivered twice; the first execution received "
                                   f"{first_rec!r}, the second {_REC[0]!r} (signature {src.splitlines()[0]})"))
        if case.get("via_inmem") == "startup":
            await broker.shutdown()

    try:
        run_virtual(main)
    except Exception as exc:  # noqa: BLE001
        v.append(Violation("callback-raised", f"Receiver.callback raised {type(exc).__name__}: {exc} for signature {src.splitlines()[0]}"))
        return v, obs
    if len(_REC) != 1:
        v.append(Violation("not-executed", f"task executed {len(_REC)} times for signature {src.splitlines()[0]}"))
        return v, obs
    got = _REC[0]
    obs["received"] = jsonable({k: prepared(x) for k, x in got.items()})
    for p in case["params"]:
        if p.get("dep") == "ctx":
            continue
        s = case["supplied"].get(p["name"])
        if p.get("dep"):
            # dependency parameter: the resolved dependency unless the caller sent a value
            if p["dep"] == "dep_int":
                want = 7 if s is None else expected_value("int", dec(s["v"]), case["fmt"], case["validate"])
            else:
                want = "dep-value" if s is None else expected_value("str" if p["dep"] == "dep_ann" else "none", dec(s["v"]), case["fmt"], case["validate"])
        elif s is None:
            want = p.get("default_val", "DEFAULT")
        else:
            want = expected_value(p["ann"], dec(s["v"]), case["fmt"], case["validate"])
        g = got[p["name"]]
        if not strict_eq(g, want):
            pos_names = [q["name"] for q in case["params"] if case["supplied"].get(q["name"], {}).get("pos")]
            kind = "arg-mismatch"
            before = case["params"][: case["params"].index(p)]
            if case["validate"] and p["name"] in pos_names and any(
                q.get("ann") == "none" and q["name"] in pos_names for q in before
            ):
                kind = "annotation-applied-to-wrong-positional"  # the F1 mechanism
            v.append(Violation(kind, f"param {p['name']} ({p.get('ann') or p.get('dep')}) received {g!r} ({type(g).__name__}), expected {want!r} ({type(want).__name__}); signature {src.splitlines()[0]}; args={args!r} kwargs={kwargs!r} validate={case['validate']} fmt={case['fmt']}"))
    if "star" in va:
        want_l = [expected_value(va["star"]["ann"], dec(x), case["fmt"], case["validate"]) for x in va["star"]["vals"]]
        if not strict_eq(got["*rest"], want_l):
            v.append(Violation("variadic-arg-mismatch", f"*rest ({va['star']['ann']}) received {got['*rest']!r}, expected {want_l!r}; signature {src.splitlines()[0]}; args={args!r} kwargs={kwargs!r} validate={case['validate']} fmt={case['fmt']}"))
    if "dstar" in va:
        want_d = {k: expected_value(va["dstar"]["ann"], dec(x), case["fmt"], case["validate"]) for k, x in va["dstar"]["vals"].items()}
        if not strict_eq(got["**extra"], want_d):
            v.append(Violation("variadic-arg-mismatch", f"**extra ({va['dstar']['ann']}) received {got['**extra']!r}, expected {want_d!r}; signature {src.splitlines()[0]}; args={args!r} kwargs={kwargs!r} validate={case['validate']} fmt={case['fmt']}"))
    return v, obs


class C08(Check):
    pid = "C08"
    rule = ("Case = generated task function (1-6 parameters: un-annotated / Any / int / str / float / bool / List[int] "
            "/ Optional[int] / Dict[str,int] / pydantic models / dataclasses / containers of models, with or without "
            "default, positional-or-keyword or keyword-only, optionally *rest / **extra (annotated or not) collecting 0-3 further values, 0-2 dependency parameters (Context, TaskiqDepends) at "
            "random positions, sync or async), a random positional/keyword split of the supplied arguments, values "
            "from JSON trees, model and dataclass instances, convertible and inconvertible strings; validate_params "
            "on/off; formatter in {Proxy+JSONSerializer, Proxy+PickleSerializer, JSONFormatter}. Path: real "
            "kicker._prepare_message -> formatter.dumps -> loads -> Receiver.callback -> function. Oracle: every "
            "parameter receives (strict type+value equality) the sent value in wire form, or "
            "TypeAdapter(annotation).validate_python(sent) when annotated, validation on and conversion succeeds; "
            "loads(dumps(m)) == m and decoded args equal an independent JSON/pickle model of what was sent. A fifth of the "
            "cases first processes a message with inconvertible values on the same Receiver; some register a shared "
            "task of the same name with other annotations. "
            "Non-trivial: >=2 supplied arguments of which >=1 annotated; distinct = distinct (signature shape, "
            "split, value classes).")
    floors = {"counters.cli_command_lines": 30, "counters.api_receivers_built": 30, "counters.params_checked": 20000, "counters.annotated_converted": 2000}
    quick_cases = 24000
    thorough_cases = 1000000
    thorough_time = 400.0
    assumptions = [
        "msgpack / orjson / cbor2 serializers are not installed in this sandbox and are not exercised",
        "JSON-representable = finite floats, str without lone surrogates, str dict keys, lists (no tuples/bytes)",
        "'convertible' is pydantic's lax-mode TypeAdapter.validate_python, as documented for parse_params",
    ]

    def shard_epilogue(self, tier: str, shard: int, rng: random.Random) -> Dict[str, int]:
        """'with parsing disabled everything arrives as sent': the switch as the command line (--no-parse) and
        taskiq.api.run_receiver_task(validate_params=...) set it must reach every Receiver that is built."""
        from mon import wiring

        return wiring.epilogue(tier, shard, rng, ["validate_params"])

    def post_merge(self, merged: Dict[str, Any]) -> None:
        from mon import wiring

        wiring.merge_violation(merged, "the worker is not built with the configured validate_params")

    def cases(self, rng: random.Random, tier: str, shard: int, nshards: int) -> Iterator[Any]:
        while True:
            case = gen_c08_case(rng)
            # text holding an unpaired surrogate (a string cut in the middle of an emoji): JSON escapes it and pickle
            # keeps it, so with the Proxy formatter it arrives unchanged.  (JSONFormatter goes through pydantic's JSON
            # text encoder, which refuses it at send time - loud, and not generated.)  Chosen from a stream of its
            # own, so that every other choice of the case stays what it was for the seed.
            rng_ls = random.Random(repr(sorted(case["supplied"])) + str(len(case["params"])) + case["fmt"] + str(case["validate"]) + str(case["labels"]))
            if case["fmt"] in ("proxy+json", "proxy+pickle") and rng_ls.random() < 0.5:
                anns = {p_["name"]: p_.get("ann") for p_ in case["params"]}
                for name_, sv in case["supplied"].items():
                    if isinstance(sv.get("v"), str) and anns.get(name_) in ("str", "Any", "none") and rng_ls.random() < 0.5:
                        sv["v"] = rng_ls.choice(["cut emoji \ud83d", "\udc00", "a\ud800z", sv["v"] + "\udfff"])
                        case["lone_surrogate"] = True
                        break
            yield case

    def run_case(self, spec: Dict[str, Any]) -> CaseResult:
        cr = CaseResult()
        # JSON spec must be reproducible: values may hold model instances -> rebuild from spec each time
        v, obs = run_c08(spec)
        cr.violations += v
        sup = spec["supplied"]
        ann = [p for p in spec["params"] if not p.get("dep") and p["name"] in sup and p["ann"] not in ("none", "Any")]
        cr.counters["dependency_params_supplied"] += sum(1 for p in spec["params"] if p.get("dep") and p["name"] in sup)
        cr.counters["params_checked"] += len(sup)
        cr.counters["annotated_converted"] += len(ann)
        cr.counters["fmt_" + spec["fmt"]] += 1
        cr.nontrivial = len(sup) >= 2 and len(ann) >= 1
        shape = [(p.get("ann"), p.get("dep"), p["kwonly"], p["default"]) for p in spec["params"]]
        cr.sig = jhash([shape, sorted((k, s["pos"], _vclass(s["v"])) for k, s in sup.items()),
                        spec["validate"], spec["fmt"], spec["async"], spec.get("late_register")])
        cr.trace = obs
        cr.events["task_invocation"] += 1
        return cr

    def selftest(self) -> List[str]:
        if strict_eq(1, True) or strict_eq(1, 1.0) or not strict_eq([1, {"a": 2.0}], [1, {"a": 2.0}]):
            return ["strict_eq broken"]
        if expected_value("int", "5", "proxy+json", True) != 5 or expected_value("int", "x", "proxy+json", True) != "x":
            return ["expected_value broken"]
        return []


def _vclass(v: Any) -> str:
    if isinstance(v, dict) and "$inst" in v:
        return v["$inst"]
    return type(v).__name__
