"""Checks C01-C07, C10, C12: scenario generators + glue to harness and oracles."""
from __future__ import annotations

import copy
import json
import random
from typing import Any, Dict, Iterator, List, Optional

from mon import worker_oracles as O
from mon.runner import CaseResult, Check, Violation, jhash
from mon.worker_harness import RunResult, run_worker

EPS = 1e-6
DURS: List[List[Any]] = [
    [], ["y"], ["y", "y", "y"], [EPS], [0.05], [0.1], [0.3], [0.3 - EPS], [0.3 + EPS],
    [0.6], [1.0], [0.1, "y", 0.2], [2.5], [5.0],
]
GAPS = [0.0, 0.0, 0.0, EPS, 0.05, 0.1, 0.3, 0.3, 0.7, 1.3]
EXCS = ["ValueError", "KeyError", "CustomError", "CustomBase", "KeyboardInterrupt", "SystemExit",
        "CancelledError", "GeneratorExit", "TimeoutError", "OSError", "RuntimeError", "FalsyError", "EmptyLenError", "BadStrError", "TaskRejectedError"]
VALUES: List[Any] = [None, 0, 1, -7, 3.5, "", "text", "ü∆", [1, 2, [3]], {"a": {"b": [1, None]}}, True, False,
                     [], {}, 2 ** 70, "x" * 300]


def gen_arrivals(rng: random.Random, n: int) -> List[float]:
    pat = rng.choice(["upfront", "burst", "poll", "random", "random"])
    if pat == "upfront":
        return [0.0] * n
    if pat == "poll":
        g = rng.choice([0.3, 0.3 - EPS, 0.3 + EPS, 0.15])
        return [round(i * g, 9) for i in range(n)]
    out = []
    t = 0.0
    for i in range(n):
        if pat == "burst":
            if i and rng.random() < 0.3:
                t += rng.choice([0.3, 0.7, 1.3, 2.0])
        else:
            t += rng.choice(GAPS)
        out.append(round(t, 9))
    return out


def gen_beh(rng: random.Random, outs: List[str], durs: Optional[List[List[Any]]] = None,
            allow_genexit: bool = False) -> Dict[str, Any]:
    """allow_genexit: GeneratorExit raised by a *sync* task function is recorded finding F10 (asyncio
    throws it into the awaiting coroutine stack, which closes it); only C02/C07, which own that finding,
    generate it; for async functions GeneratorExit behaves like any other BaseException."""
    out = rng.choice(outs)
    if out == "raise":
        out = "raise:" + rng.choice(EXCS if allow_genexit else [e for e in EXCS if e != "GeneratorExit"])
    beh: Dict[str, Any] = {"dur": list(rng.choice(durs or DURS)), "out": out, "value": rng.choice(VALUES)}
    if out == "noresult" and rng.random() < 0.4:
        beh["noresult_sub"] = True  # signalled with a subclass of NoResultError
    return beh


def gen_cfg(rng: random.Random, allow_none_A: bool = True, n_ok: bool = True) -> Dict[str, Any]:
    A = rng.choice(([None, None, None, 0, -1] if allow_none_A else []) + [1, 1, 2, 2, 3, 4] * 3)  # None / 0 / -1: no limit
    cfg: Dict[str, Any] = {"A": A, "P": rng.choice([0, 0, 1, 2, 3, 4])}
    if rng.random() < 0.15:
        cfg["ctor_positional"] = True  # Receiver(broker, executor, validate_params, A, P, ...): the documented order
    if n_ok and rng.random() < 0.3:
        cfg["N"] = rng.randint(1, 6)
    elif n_ok and rng.random() < 0.1:
        cfg["N"] = 0  # the other spelling of "no limit on the number of tasks"
    return cfg


def est_horizon(spec: Dict[str, Any]) -> float:
    tot = 0.0
    last = 0.0
    hook_lat = sum(float(hs["lat"]) for mw in spec.get("mws", []) for hs in mw.values()
                   if isinstance(hs, dict) and isinstance(hs.get("lat"), (int, float)))
    for m in spec.get("msgs", []) + spec.get("client_sends", []):
        last = max(last, m.get("at", 0.0))
        beh = m.get("beh", {})
        behs = beh if isinstance(beh, list) else [beh]
        for b in behs:
            d_ = 0.0
            never = False
            for s in b.get("dur", []):
                if isinstance(s, (int, float)):
                    d_ += s
                elif isinstance(s, str) and s.startswith("w"):
                    d_ += float(s[1:])
                elif s == "never":
                    never = True
            tmo = m.get("timeout")
            if isinstance(tmo, (int, float)) and tmo > 0 and (never or d_ > tmo):
                d_ = float(tmo)  # the body is cut by its timeout label ...
                d_ += sum(x for x in b.get("cleanup", []) if isinstance(x, (int, float)))  # ... and winds down
            tot += d_ + float(b.get("sync_hold") or 0)
        tot += 0.5 + hook_lat  # hook / ack / backend latencies
    return last + tot + 0.4 * (len(spec.get("msgs", [])) + 2) + 20.0


def run_and_sig(spec: Dict[str, Any]) -> RunResult:
    return run_worker(spec)


def base_result(rr: RunResult, cr: CaseResult) -> None:
    for e in rr.trace:
        cr.events[e["k"]] += 1
    cr.counters["scenario_runs"] += 1
    cr.counters["outcome_" + rr.outcome] += 1
    if rr.outcome == "loop-killed":
        cr.violations.append(Violation("worker-loop-killed", f"an exception raised by a task function escaped into the event loop and stopped the worker: {rr.err}"))
    if rr.outcome in ("budget", "watchdog"):
        raise RuntimeError(f"harness could not finish the scenario: {rr.outcome} {rr.err}")


def compact(trace: List[Dict[str, Any]], n: int = 80) -> List[str]:
    out = []
    for e in trace[:n]:
        extra = {k: v for k, v in e.items() if k not in ("i", "t", "k", "m", "labels", "args", "kwargs", "deps", "rv")}
        out.append(f"{e['t']:.6f} {e['k']} {e['m']} {extra if extra else ''}".rstrip())
    if len(trace) > n:
        out.append(f"... {len(trace) - n} more events")
    return out


def stop_instants(rng: random.Random, base_trace: List[Dict[str, Any]], full: bool) -> List[float]:
    hz = [e["i"] for e in base_trace if e["k"] in ("horizon", "listen_returned")]
    lim = hz[0] if hz else len(base_trace)
    ts = sorted({e["t"] for e in base_trace if e["i"] < lim})
    cand: List[float] = []
    for t in ts:
        cand += [max(0.0, t - EPS), t, t + EPS]
    if ts:
        g = 0.0
        while g < ts[-1] + 0.5:
            cand.append(round(g, 6))
            g += 0.1
    cand = sorted(set(cand))
    if full or len(cand) <= 12:
        return cand
    return sorted(rng.sample(cand, 12))


def fidelity_spec(rng: random.Random) -> Dict[str, Any]:
    n = rng.randint(2, 5)
    msgs = []
    t = 0.0
    for i in range(n):
        t += rng.choice([0.07, 0.11, 0.17])
        msgs.append({"at": round(t, 3), "task": "t_async", "ackable": rng.random() < 0.5,
                     "beh": {"dur": [rng.choice([0.05, 0.13, 0.23, 0.37])], "out": rng.choice(["ok", "raise:ValueError", "noresult"])}})
    return {"cfg": {"A": rng.choice([1, 2, None]), "P": rng.choice([0, 1])}, "msgs": msgs,
            "stop_at": round(t + 0.5, 3), "horizon": 5.0}


def tie_free(trace: List[Dict[str, Any]], gap: float) -> bool:
    """All distinct event instants at least `gap` apart, and events sharing an instant belong to one
    delivery (a causal chain) - otherwise real time may legitimately order them differently."""
    by_t: Dict[float, set] = {}
    for e in trace:
        by_t.setdefault(round(e["t"], 6), set()).add(e["m"])
    ts = sorted(by_t)
    if any(b - a < gap for a, b in zip(ts, ts[1:])):
        return False
    return all(len({m for m in ms if m is not None}) <= 1 for ms in by_t.values())


class WorkerCheck(Check):
    """Common: one case = one spec (or a sweep of derived specs)."""

    # Receiver parameters this property is about: the public entry points that set them (the `taskiq worker`
    # command line and taskiq.api.run_receiver_task) are probed once per run (mon/wiring.py)
    wiring_fields: List[str] = []

    def judge(self, rr: RunResult, spec: Dict[str, Any], cr: CaseResult) -> None:
        raise NotImplementedError

    def shard_epilogue(self, tier: str, shard: int, rng: random.Random) -> Dict[str, int]:
        if not self.wiring_fields:
            return {}
        from mon import wiring

        return wiring.epilogue(tier, shard, rng, self.wiring_fields)

    def post_merge(self, merged: Dict[str, Any]) -> None:
        if self.wiring_fields:
            from mon import wiring

            wiring.merge_violation(merged, "the worker is not built with the configured " + "/".join(self.wiring_fields))

    def nontrivial(self, rr: RunResult, spec: Dict[str, Any]) -> bool:
        return True

    def run_case(self, spec: Dict[str, Any]) -> CaseResult:
        cr = CaseResult()
        sweep = spec.get("sweep")
        rr = run_worker(spec)
        base_result(rr, cr)
        self.judge(rr, spec, cr)
        nsame = sum(1 for m in spec.get("msgs", []) if m.get("task_id"))
        if nsame:
            cr.counters["messages_reusing_a_task_id"] += nsame
        sigs = [O.signature(rr.trace)]
        cr.nontrivial = self.nontrivial(rr, spec)
        cr.trace = compact(rr.trace)
        if sweep:
            rng = random.Random(spec.get("sweep_seed", 0))
            for s in stop_instants(rng, rr.trace, sweep == "full"):
                sub = copy.deepcopy(spec)
                sub.pop("sweep", None)
                sub["stop_at"] = s
                sub["horizon"] = max(spec.get("horizon", 100.0), s) + (spec.get("cfg", {}).get("W") or 0) + 12
                r2 = run_worker(sub)
                base_result(r2, cr)
                before = len(cr.violations)
                self.judge(r2, sub, cr)
                for vv in cr.violations[before:]:
                    vv.detail = {"sub_spec_stop_at": s, "trace": compact(r2.trace, 120)}
                cr.counters["stop_instants"] += 1
                sigs.append(O.signature(r2.trace))
                cr.nontrivial = cr.nontrivial or self.nontrivial(r2, sub)
        cr.sig = jhash(sigs)
        return cr


def add_same_id_messages(rng: random.Random, msgs: List[Dict[str, Any]], p: float = 0.15) -> int:
    """Some valid messages carry the task id of an earlier one (a re-delivery by an at-least-once broker, or an id
    the caller re-used) and arrive close to it, so that both are in flight together.  Returns how many."""
    n = 0
    for j in range(1, len(msgs)):
        if msgs[j].get("kind", "valid") != "valid" or rng.random() >= p:
            continue
        cands = [i for i in range(j) if msgs[i].get("kind", "valid") == "valid"]
        if not cands:
            continue
        i = rng.choice(cands[-3:])
        msgs[j]["task_id"] = msgs[i].get("task_id") or msgs[i].get("tok") or f"m{i}"
        if rng.random() < 0.7:
            msgs[j]["at"] = round(msgs[i].get("at", 0.0) + rng.choice([0.0, 0.0, 0.001, 0.01]), 6)
        n += 1
    return n


# ====================================================================================
# C01


def gen_c01_spec(rng: random.Random, maxn: int = 40) -> Dict[str, Any]:
    n = rng.choice([1, 2, 3, 5, 8, 13, 20, maxn])
    ats = gen_arrivals(rng, n)
    msgs = []
    for i in range(n):
        r = rng.random()
        kind = "valid" if r < 0.75 else ("malformed" if r < 0.9 else "unknown")
        m: Dict[str, Any] = {"at": ats[i], "kind": kind, "variant": rng.randint(0, 15),
                             "task": rng.choice(["t_async", "t_async", "t_sync", "t_async", "t_async", "t_sync", "t_asyncified"]),
                             "ackable": rng.random() < 0.5,
                             "beh": gen_beh(rng, ["ok", "ok", "raise", "noresult"])}
        if m["task"] == "t_sync":
            m["beh"]["dur"] = []
            if rng.random() < 0.25:
                m["beh"]["sync_hold"] = rng.choice([0.05, 0.3, 1.0])  # the function holds its thread: sync executions overlap
        if kind == "valid" and rng.random() < 0.15:
            m["partial_types"] = True
            m["labels"] = {"origin": "cron", "trace": "t-1"}
        elif kind == "valid" and rng.random() < 0.1:
            m["labels"] = rng.choice([{"sig": b"hello world!", "n": 3}, {"blob": b"\xfb\xff\xfe"}, {"f": 1.5, "flag": True, "raw": b"ab?"}])
        if kind == "valid" and "labels" not in m and rng.random() < 0.08:
            m["raw_labels"] = "native"  # a hand-built message whose typed labels carry native JSON values
        if kind == "valid" and m["task"] == "t_async" and rng.random() < 0.06:
            m["task"] = "t_annot"
            m["kwargs"] = {"w": rng.choice([2.5, 3, "1.5"])}
        elif kind == "valid" and m["task"] == "t_async" and rng.random() < 0.06:
            m["timeout"] = rng.choice([10, 30])  # a (generous) timeout label, sent as text
            m["timeout_str"] = True
        if kind == "valid" and "kwargs" not in m and rng.random() < 0.1:
            m["api_kwargs"] = True
        if kind == "valid" and rng.random() < 0.12:
            # a parameter annotated with a plain class (no pydantic schema), value sent by keyword or position
            m["task"] = "t_plain" if m["task"] != "t_sync" else "t_plain_sync"
            if rng.random() < 0.5:
                m["kwargs"] = {"obj": rng.choice([5, "x", {"a": 1}])}
            else:
                m["args"] = [rng.choice([5, "x", {"a": 1}])]
        msgs.append(m)
    spec: Dict[str, Any] = {"cfg": gen_cfg(rng), "msgs": msgs}
    spec["cfg"]["threads"] = len(msgs) + 2
    spec["cfg"]["ack"] = rng.choice(["when_saved", "when_saved", "when_executed", "when_received"])  # (half of the messages have no ack callback)
    if rng.random() < 0.15:
        # another worker object in the same process (another broker, tasks of the same names, other signatures)
        spec["twin_receiver"] = True
    if rng.random() < 0.1:
        # the broker's wire format is configured after the worker object was built
        spec["fmt_late"] = rng.choice(["formatter", "serializer"])
    r = rng.random()
    if r < 0.12:
        # a task registered while the worker is running (dynamic tasks): messages naming it are unknown before
        # and known afterwards
        at = round(rng.choice([0.05, 0.2, 0.33, 0.5, 1.0]) + 0.0137, 4)
        spec["tasks"] = {"t_late": {"fn": rng.choice(["async", "sync"]), "late_at": at}}
        if rng.random() < 0.5:
            # ... with an injected parameter in the Annotated style, on a worker that does not parse arguments
            spec["tasks"]["t_late"]["ctx"] = "annotated"
            spec["cfg"]["validate"] = rng.random() < 0.5
        rereg = rng.random() < 0.4
        if rereg:
            # the name is registered again later with a function of the other kind (a new version of the task deployed at
            # run time): messages run whatever function the name stands for when they are processed
            spec["tasks"]["t_late_v2"] = {"fn": "async" if spec["tasks"]["t_late"]["fn"] == "sync" else "sync", "reg_name": "t_late",
                                          "late_at": round(at + rng.choice([0.1, 0.3, 0.6]), 4)}
            if spec["tasks"]["t_late"].get("ctx"):
                spec["tasks"]["t_late_v2"]["ctx"] = spec["tasks"]["t_late"]["ctx"]
        for m in msgs:
            if m["kind"] == "valid" and m["task"] in ("t_async", "t_sync") and rng.random() < 0.6:
                m["task"] = "t_late"
                if spec["tasks"]["t_late"]["fn"] == "sync" or rereg:
                    m["beh"]["dur"] = []
    elif r < 0.24:
        # tasks with different dependency parameters on one worker, with dependency overrides in force
        spec["deps"] = {"d0": {"style": rng.choice(["plain_sync", "gen", "agen"])}, "d1": {"style": rng.choice(["plain_async", "cm", "acm"])},
                        "d2": {"style": rng.choice(["plain_sync", "gen"])}}
        spec["tasks"] = {"t_da": {"fn": "async", "deps": ["d0"], "strict_sig": True}, "t_db": {"fn": "async", "deps": ["d1"], "strict_sig": True},
                         "t_dc": {"fn": rng.choice(["async", "sync"]), "deps": ["d0", "d1"], "strict_sig": True},
                         "t_dn": {"fn": "async", "strict_sig": True}}
        if rng.random() < 0.8:
            spec["overrides"] = {rng.choice(["d0", "d1"]): "d2"}
        for m in msgs:
            if m["kind"] == "valid" and m["task"] in ("t_async", "t_sync") and rng.random() < 0.8:
                m["task"] = rng.choice(["t_da", "t_db", "t_dc", "t_dn"])
                if spec["tasks"][m["task"]]["fn"] == "sync":
                    m["beh"]["dur"] = []
                if m["task"] in ("t_da", "t_dc") and "kwargs" not in m and rng.random() < 0.25:
                    # the caller sends a value for a parameter that has a dependency default: the sent value is used
                    m["kwargs"] = {"d0": "sent-by-caller"}
    elif r < 0.36:
        # the process-wide shared registry: a shared task nobody else defines must run; a shared task that has
        # the name of one of the worker's own tasks must not replace it
        spec["tasks"] = {"t_shared": {"fn": rng.choice(["async", "sync"]), "shared": True}}
        spec["shadow_shared"] = rng.choice([["t_async"], ["t_sync"], ["t_async", "t_sync"], []])
        for m in msgs:
            if m["kind"] == "valid" and m["task"] in ("t_async", "t_sync") and rng.random() < 0.3:
                m["task"] = "t_shared"
                if spec["tasks"]["t_shared"]["fn"] == "sync":
                    m["beh"]["dur"] = []
    if rng.random() < 0.15:
        add_same_id_messages(rng, msgs, 0.3)
    if rng.random() < 0.06:
        return gen_c01_stream_fault_spec(rng)
    if rng.random() < 0.15:
        # middlewares in front of the execution, in every supported hook style
        spec["mws"] = [{"pre_execute": {"async": rng.random() < 0.5, "style": rng.choice([None, "awaitable", "task"]),
                                        "lat": rng.choice([0, "y", 0.01]), "returns_msg": True}}
                       for _ in range(rng.randint(1, 2))]
    mode = rng.choice(["stop", "stop", "end", "end", "none"])
    if spec["cfg"].get("N"):
        mode = rng.choice(["stop", "end", "none", "none"])
    if mode == "stop":
        spec["stop_at"] = round(rng.choice([0.0, EPS, 0.1, 0.3, 0.3 + EPS, 0.45, 0.6, 1.0, 2.0]) + rng.choice([0, 0, rng.random()]), 6)
    elif mode == "end":
        spec["end_stream"] = True
    spec["horizon"] = est_horizon(spec)
    if rng.random() < 0.3:
        # an optional keyword argument that some messages carry and others leave to its default
        for m in msgs:
            if m["kind"] == "valid" and m["task"] in ("t_async", "t_sync") and "kwargs" not in m and rng.random() < 0.5:
                m["kwargs"] = {"opt": rng.randint(1, 99)}
    for m in msgs:
        if m.pop("api_kwargs", False) and "kwargs" not in m and m["task"] in ("t_async", "t_sync", "t_asyncified", "t_late", "t_shared"):
            # keyword arguments whose names the worker's own plumbing also uses (the task takes **kwargs)
            m["kwargs"] = rng.choice([{"target": "prod"}, {"args": [1]}, {"kwargs": {"a": 1}}, {"message": 1, "loop": 2}, {"func": "f", "executor": 0}])
    return spec


def gen_c01_stream_fault_spec(rng: random.Random) -> Dict[str, Any]:
    """A programmatic worker (taskiq.api.run_receiver_task) whose broker stream breaks a few times while the worker
    is idle; run_receiver_task restarts listening, and messages that arrive afterwards are processed as ever."""
    A = rng.choice([1, 1, 2, 3])
    msgs: List[Dict[str, Any]] = []
    for i in range(rng.randint(0, 3)):
        msgs.append({"at": round(0.05 * i, 3), "kind": "valid", "task": "t_async", "ackable": rng.random() < 0.5,
                     "beh": {"dur": [rng.choice([0.0, 0.01, 0.05])] if rng.random() < 0.7 else [], "out": rng.choice(["ok", "raise:ValueError"]), "value": i}})
    nf = rng.randint(1, A + 2)
    faults = [round(1.0 + 0.5 * k, 3) for k in range(nf)]
    t = faults[-1] + 1.0
    for i in range(rng.randint(2, 6)):
        t += rng.choice([0.0, 0.01, 0.4])
        msgs.append({"at": round(t, 3), "kind": "valid", "task": rng.choice(["t_async", "t_sync"]), "ackable": rng.random() < 0.5,
                     "beh": {"dur": [], "out": "ok", "value": 100 + i}})
    return {"cfg": {"A": A, "P": rng.choice([0, 0, 1, 2])}, "via": "api", "msgs": msgs, "stream_faults": faults, "horizon": round(t + 8.0, 3)}


class C01(WorkerCheck):
    pid = "C01"
    rule = ("Scenario = (message script valid/malformed/unknown with arrival instants and task durations, "
            "A/P/N configuration, stop instant or stream end) executed by the real Receiver.listen() on the "
            "virtual-time loop; sweep cases re-run one script with the stop request at every observed event "
            "instant -eps/=/+eps and on a 0.1 s grid. Oracle: multiset {valid messages yielded} == {task "
            "function invocations}, each exactly once; invalid messages never execute; listen() neither raises "
            "nor deadlocks. A third of the scenarios add: a task registered while the worker runs (messages whose "
            "processing began after the registration must run), tasks with different dependency parameters and "
            "strict signatures under dependency_overrides, a task that only exists in the shared registry, and "
            "shared tasks shadowed by own tasks of the same name (the own function must be the one invoked); 6 % run "
            "through taskiq.api.run_receiver_task with the broker stream breaking 1..A+2 times while idle (messages "
            "arriving after the restarts must run). "
            "Non-trivial: >=2 messages taken and >=1 executed; distinct = distinct sequences of "
            "(event kind, delivery) in the trace(s).")
    floors = {"events.yield": 200, "events.task_start": 100, "counters.stop_instants": 20,
              "counters.executions_of_late_registered_task": 50, "counters.executions_of_shared_only_task": 50,
              "counters.executions_with_dependencies_overridden": 100, "counters.executions_of_own_task_shadowed_by_shared": 100,
              "counters.executions_after_stream_restart": 100}
    quick_cases = 3000
    thorough_cases = 60000
    thorough_time = 420.0
    assumptions = [
        "virtual-time SelectorEventLoop subclass preserves asyncio FIFO ready-queue semantics",
        "a message counts as taken when the scripted broker's listen() generator reaches its yield statement",
    ]

    def cases(self, rng: random.Random, tier: str, shard: int, nshards: int) -> Iterator[Any]:
        i = 0
        while True:
            spec = gen_c01_spec(rng, 40 if tier == "thorough" else 25)
            # every k-th case is a stop-instant sweep over a (smaller) script
            k = 12 if tier == "quick" else 15
            if i % k == 0:
                spec = gen_c01_spec(rng, 8)
                spec.pop("stop_at", None)
                spec.pop("end_stream", None)
                spec["horizon"] = est_horizon(spec)
                spec["sweep"] = "full" if tier == "thorough" else "sample"
                spec["sweep_seed"] = rng.randint(0, 10 ** 9)
            i += 1
            yield spec

    def judge(self, rr: RunResult, spec: Dict[str, Any], cr: CaseResult) -> None:
        cr.violations += O.oracle_c01(rr, spec)
        tname = {i["d"]: i.get("task") for i in rr.sc.deliveries}
        for e in rr.trace:
            if e["k"] == "task_start":
                t = tname.get(e["m"])
                if t == "t_late":
                    cr.counters["executions_of_late_registered_task"] += 1
                elif t == "t_shared":
                    cr.counters["executions_of_shared_only_task"] += 1
                elif t in ("t_da", "t_db", "t_dc", "t_dn"):
                    cr.counters["executions_with_dependencies" + ("_overridden" if spec.get("overrides") else "")] += 1
                elif t in (spec.get("shadow_shared") or []):
                    cr.counters["executions_of_own_task_shadowed_by_shared"] += 1
                if spec.get("stream_faults"):
                    cr.counters["executions_after_stream_restart"] += 1 if e["t"] > spec["stream_faults"][-1] else 0

    def shard_epilogue(self, tier: str, shard: int, rng: random.Random) -> Dict[str, int]:
        """Fidelity cross-check of the virtual-time loop (thorough tier, two shards): short tie-free
        scenarios run on the virtual loop and on the stock asyncio loop in real time must produce the
        same order of (event kind, delivery).  Real time on a loaded machine is noisy, so the result
        is evidence, and only a systematic disagreement makes the run INCONCLUSIVE (post_merge)."""
        if tier != "thorough" or shard > 1:
            return {}
        out = {"loop_fidelity_compared": 0, "loop_fidelity_equal": 0}
        tries = 0
        while out["loop_fidelity_compared"] < 8 and tries < 200:
            tries += 1
            spec = fidelity_spec(rng)
            v = run_worker(spec)
            if v.outcome != "returned" or not tie_free(v.trace, 0.04):
                continue
            r = run_worker(spec, real=True)
            out["loop_fidelity_compared"] += 1
            if O.signature(r.trace) == O.signature(v.trace):
                out["loop_fidelity_equal"] += 1
            else:
                r2 = run_worker(spec, real=True)  # one retry against real-time noise
                if O.signature(r2.trace) == O.signature(v.trace):
                    out["loop_fidelity_equal"] += 1
        return out

    def post_merge(self, merged: Dict[str, Any]) -> None:
        c = merged["counters"]
        if c.get("loop_fidelity_compared", 0) >= 6 and c.get("loop_fidelity_equal", 0) == 0:
            merged["errors"].append({"spec": "loop-fidelity", "error": "virtual-time loop and stock asyncio loop disagree on every "
                                     "compared scenario: harness fidelity in doubt"})

    def nontrivial(self, rr: RunResult, spec: Dict[str, Any]) -> bool:
        ny = sum(1 for e in rr.trace if e["k"] == "yield")
        ns = sum(1 for e in rr.trace if e["k"] == "task_start")
        return ny >= 2 and ns >= 1

    def selftest(self) -> List[str]:
        fails = []

        class _RR:
            outcome = "returned"
            err = None
        bad = _RR()
        bad.trace = [{"i": 0, "t": 0, "k": "yield", "m": 0, "tok": "m0", "mk": "valid"},
                     {"i": 1, "t": 0, "k": "yield", "m": 1, "tok": "m1", "mk": "valid"},
                     {"i": 2, "t": 0, "k": "task_start", "m": 1}, {"i": 3, "t": 0, "k": "task_start", "m": 1}]
        kinds = {v.kind for v in O.oracle_c01(bad, {"cfg": {}})}
        if not {"message-dropped", "executed-twice"} <= kinds:
            fails.append(f"C01 oracle missed drop/dup: {kinds}")
        return fails


# ====================================================================================
# C02


def gen_c02_spec(rng: random.Random) -> Dict[str, Any]:
    n = rng.randint(1, 8)
    ack = rng.choice(["when_received", "when_executed", "when_saved"])
    ats = gen_arrivals(rng, n)
    msgs = []
    fail = []
    for i in range(n):
        task = rng.choice(["t_async", "t_async", "t_sync", "t_async", "t_async", "t_sync", "t_asyncified"])
        beh = gen_beh(rng, ["ok", "ok", "raise", "noresult"], allow_genexit=True)
        m: Dict[str, Any] = {"at": ats[i], "task": task, "ackable": rng.random() < 0.9,
                             "ack_kind": rng.choice(["sync", "async", "async", "awaitable", "task"]),
                             "ack_lat": rng.choice([0, 0, "y", 0.01, 0.2]), "beh": beh}
        if task == "t_sync":
            beh["dur"] = []
            if rng.random() < 0.3:
                beh["sync_hold"] = rng.choice([0.05, 0.3, 1.0])
            if rng.random() < 0.3:
                m["timeout"] = rng.choice([10, 30])  # a (generous) timeout label on a sync task function
        elif rng.random() < 0.06:
            # a timeout label that is not a number: the execution fails like any other failing execution
            m["timeout_raw"] = rng.choice(["soon", "", "None", "1s"])
        elif rng.random() < 0.3:
            d = O._dur_total(beh) or 0.0
            m["timeout"] = rng.choice([0.05, 0.2, max(0.01, d - 0.01), d + 0.01, 10])
            if rng.random() < 0.5:
                beh["cleanup"] = rng.choice([["y"], ["y", "y"], [0.05], [0.3]])
        if rng.random() < 0.2:
            fail.append(f"m{i}")
        if rng.random() < 0.1:
            m["task"] = "t_plain" if task != "t_sync" else "t_plain_sync"
            m["kwargs" if rng.random() < 0.5 else "args"] = {"obj": 5} if "kwargs" not in m and rng.random() < 2 else [5]
            if "args" in m and isinstance(m["args"], dict):
                m["args"] = [5]
            if "kwargs" in m and isinstance(m["kwargs"], list):
                m["kwargs"] = {"obj": 5}
        if rng.random() < 0.1:
            m["partial_types"] = True
            m["labels"] = {"origin": "cron"}
        if rng.random() < 0.07:
            # a delivery this worker cannot process (task of another deployment, garbage): its configured point is never
            # reached, it stays with the broker for redelivery
            m["kind"] = rng.choice(["unknown", "unknown", "malformed"])
            m["variant"] = rng.randint(0, 15)
            m["ackable"] = True
        elif rng.random() < 0.12:
            # labels that are not plain text: binary values, and structured values from a producer that sends bare JSON
            m["labels"] = rng.choice([{"digest": b"\xff\xfe\x00"}, {"tags": ["a", "b"], "meta": {"k": 1}}, {"ratio": 0.25, "none": None}])
            if not all(isinstance(x, (bytes, float)) for x in m["labels"].values()):
                m["raw_labels"] = True
        msgs.append(m)
    if rng.random() < 0.3:
        add_same_id_messages(rng, msgs, 0.4)
    W = None
    if rng.random() < 0.12:
        # graceful shutdown with a short wait_tasks_timeout while sync task functions still hold their threads:
        # giving up on them must not acknowledge them
        W = rng.choice([0.1, 0.3])
        for m_ in msgs:
            if m_["task"] in ("t_sync", "t_plain_sync") and rng.random() < 0.8:
                m_["beh"]["sync_hold"] = rng.choice([1.0, 2.0])
    spec: Dict[str, Any] = {
        # (enough executor threads for every sync function that parks its thread for virtual time)
        "cfg": {"A": rng.choice([1, 2, 4, None]), "P": rng.choice([0, 1, 3]), "ack": ack, "W": W, "threads": len(msgs) + 2},
        "msgs": msgs, "end_stream": True,
        "backend": {"lat": rng.choice([0, 0, "y", 0.01, 0.1]), "fail": fail},
    }
    if rng.random() < 0.25:
        spec["ack_subclass"] = True  # every other delivery is an instance of the broker's own AckableMessage subclass
    if fail and rng.random() < 0.5:
        spec["backend"]["fail_exc"] = rng.choice(["TimeoutError", "socket.timeout", "ConnectionError", "KeyError", "asyncio.TimeoutError"])
    r_b = rng.random()
    if r_b < 0.12:
        spec["backend"]["kind"] = "dummy_sub"
    elif r_b < 0.24:
        spec["backend"]["late"] = True
    if rng.random() < 0.1:
        # a task one of whose dependencies fails while it is resolved: an execution that failed, acknowledged like one
        spec["deps"] = {"dx": {"style": rng.choice(["plain_async", "plain_sync", "agen"]), "raise_open": True, "subs": []},
                        "dy": {"style": rng.choice(["gen", "acm"]), "subs": []}}
        spec["tasks"] = {"t_depfail": {"fn": rng.choice(["async", "sync"]), "deps": rng.choice([["dx"], ["dy", "dx"]])}}
        for m_ in msgs:
            if m_["task"] in ("t_async", "t_sync") and m_.get("timeout") is None and rng.random() < 0.5:
                m_["task"] = "t_depfail"
                m_["beh"]["dur"] = []
                m_["beh"].pop("sync_hold", None)
    if rng.random() < 0.2:
        spec["cfg"]["N"] = rng.randint(1, max(1, n))  # --max-tasks-per-child: the worker recycles after N messages
    if rng.random() < 0.3:
        spec["mws"] = [{"post_execute": {"async": True, "lat": rng.choice(["y", 0.02])},
                        "post_save": {"async": rng.random() < 0.5, "lat": 0.01}}]
    spec["horizon"] = est_horizon(spec)
    if rng.random() < 0.1 and spec["cfg"]["A"] is not None:
        spec["via"] = "api"  # ack type handed through taskiq.api.run_receiver_task(ack_time=...)
        spec["end_stream"] = False
    return spec


class C02(WorkerCheck):
    pid = "C02"
    wiring_fields = ["ack_type"]
    level = "fault_enumeration"
    rule = ("Scenario = 1-8 overlapping ackable messages x ack type x sync/async ack callable (with latency) x "
            "outcome (return, raise incl. BaseException, timeout, no-result, backend failure) on the real "
            "Receiver.listen(). Crash points are enumerated as every prefix of every recorded trace: at each "
            "prefix the set of acknowledged messages must be a subset of those whose configured point was reached "
            "(equivalently each ack event is checked against the state accumulated before it); plus exactly one "
            "ack by the end of processing. Non-trivial: >=2 messages whose processing overlapped in time; distinct "
            "= distinct (event kind, delivery) sequences.")
    floors = {"counters.cli_command_lines": 30, "counters.api_receivers_built": 30, "events.ack": 300, "counters.crash_prefixes_examined": 5000, "events.set_fail": 5}
    quick_cases = 3000
    thorough_cases = 50000
    assumptions = [
        "an acknowledgement counts at the instant the ack callable's body starts executing",
        "malformed / unknown-task messages and failing middleware hooks are outside C02's quantifier",
    ]

    def cases(self, rng: random.Random, tier: str, shard: int, nshards: int) -> Iterator[Any]:
        while True:
            yield gen_c02_spec(rng)

    def judge(self, rr: RunResult, spec: Dict[str, Any], cr: CaseResult) -> None:
        v, prefixes, acks = O.oracle_c02(rr, spec)
        cr.violations += v
        cr.counters["crash_prefixes_examined"] += prefixes
        cr.counters["ack_type_" + spec["cfg"]["ack"]] += 1
        if rr.outcome not in ("returned", "api-horizon"):
            cr.violations.append(Violation("worker-stalled", f"outcome {rr.outcome} {rr.err}"))

    def nontrivial(self, rr: RunResult, spec: Dict[str, Any]) -> bool:
        open_n = 0
        for e in rr.trace:
            if e["k"] == "cb_enter":
                open_n += 1
                if open_n >= 2:
                    return True
            elif e["k"] == "cb_exit":
                open_n -= 1
        return False

    def selftest(self) -> List[str]:
        fails = []

        class _SC:
            deliveries = [{"d": 0, "ackable": True, "kind": "valid"}]

        class _RR:
            sc = _SC()
            outcome = "returned"
        for ack, tr, want in [
            ("when_saved", ["task_start", "task_end", "set_enter", "ack", "set_exit", "cb_exit"], "ack-early-when-saved"),
            ("when_executed", ["task_start", "ack", "task_end", "cb_exit"], "ack-early-when-executed"),
            ("when_received", ["task_start", "ack", "task_end", "cb_exit"], "ack-late-when-received"),
            ("when_saved", ["task_start", "task_end", "set_enter", "set_exit", "ack", "ack", "cb_exit"], "ack-twice"),
            ("when_saved", ["task_start", "task_end", "set_enter", "set_exit", "cb_exit"], "ack-missing"),
        ]:
            r = _RR()
            r.trace = [{"i": i, "t": 0, "k": k, "m": 0, "how": "return"} for i, k in enumerate(tr)]
            kinds = {x.kind for x in O.oracle_c02(r, {"cfg": {"ack": ack}})[0]}
            if want not in kinds:
                fails.append(f"C02 oracle missed {want}: {kinds}")
        return fails


# ====================================================================================
# C03


HOOKS_W = ["pre_execute", "post_execute", "on_error", "post_save"]


def gen_c03_spec(rng: random.Random, maxn: int = 40) -> Dict[str, Any]:
    A = rng.choice([1, 1, 2, 2, 3, 4, 5, 1, 2, 3, rng.choice([None, 0, -1])])  # None/0/-1: limit switched off
    n = rng.randint(5, maxn)
    ats = gen_arrivals(rng, n)
    msgs = []
    fail = []
    fail_cancel: List[str] = []
    hook_raise: Dict[str, List[str]] = {h: [] for h in HOOKS_W}
    kinds = ["ok", "raise", "timeout", "noresult", "malformed", "unknown", "backend", "hook"]
    # bias towards one dominant outcome so that it occurs >= A times
    dom = rng.choice(kinds)
    for i in range(n):
        kind = dom if rng.random() < 0.5 else rng.choice(kinds)
        tok = f"m{i}"
        m: Dict[str, Any] = {"at": ats[i], "task": rng.choice(["t_async", "t_async", "t_sync"]),
                             "ackable": rng.random() < 0.5,
                             "beh": gen_beh(rng, ["ok"], DURS[:11])}
        if kind == "raise":
            m["beh"]["out"] = "raise:" + rng.choice([e for e in EXCS if e != "GeneratorExit"])
        elif kind == "noresult":
            m["beh"]["out"] = "noresult"
        elif kind == "timeout":
            m["task"] = "t_async"
            m["beh"]["dur"] = [rng.choice([0.5, 1.0, "never"])]
            m["timeout"] = rng.choice([0.05, 0.2, 0.05, 0.2, 0, 0.0])
            if rng.random() < 0.3:
                m["timeout_str"] = True
            if rng.random() < 0.6:
                m["beh"]["cleanup"] = rng.choice([["y"], [0.05], [0.4], ["y", 0.2]])
            if m["beh"]["dur"] == ["never"] and rng.random() < 0.4:
                # the task declares a long timeout (decorator label), this call asks for a short one: the call's own wins
                m["task"] = "t_decl_to"
            if rng.random() < 0.15:
                # a label that is not a number: the message fails (error result) without the body ever running
                m.pop("timeout")
                m.pop("timeout_str", None)
                m["timeout_raw"] = rng.choice(["soon", "", "1s", "None"])
                m["beh"]["dur"] = [rng.choice([0.5, 1.0])]
        elif kind in ("malformed", "unknown"):
            m["kind"] = kind
            m["variant"] = rng.randint(0, 12)
        elif kind == "backend":
            (fail_cancel if rng.random() < 0.3 else fail).append(tok)
        elif kind == "hook":
            h = rng.choice(HOOKS_W)
            hook_raise[h].append(tok)
            if h == "on_error":
                m["beh"]["out"] = "raise:ValueError"
        if m["task"] == "t_sync":
            m["beh"]["dur"] = []
            if rng.random() < 0.3:
                m["beh"]["sync_hold"] = rng.choice([0.05, 0.3, 1.0])
            elif m.get("timeout") is None and m.get("timeout_raw") is None and kind not in ("malformed", "unknown") and rng.random() < 0.15:
                # a sync function with a (generous) timeout label: the loop stays alive while it runs
                m["timeout"] = 30
                m["beh"]["probe_loop"] = True
        msgs.append(m)
    if rng.random() < 0.2:
        # an at-least-once broker delivers a frame again (byte-identical) while its first delivery is still being processed
        cands = [i for i, m_ in enumerate(msgs) if m_.get("kind", "valid") == "valid" and m_["task"] == "t_async" and m_.get("timeout") is None
                 and m_.get("timeout_raw") is None and m_["beh"]["out"] == "ok" and (O._dur_total(m_["beh"]) or 0) >= 0.3
                 and "never" not in m_["beh"].get("dur", [])]
        for i in rng.sample(cands, min(len(cands), rng.randint(1, 3))):
            msgs.append({"dup_of": i, "at": round(msgs[i]["at"] + rng.choice([0.0, 0.01, 0.05]), 6), "kind": "valid", "task": "t_async",
                         "ackable": msgs[i]["ackable"], "beh": msgs[i]["beh"]})
    t_probe = (max(m_["at"] for m_ in msgs) if msgs else 0.0) + 0.5
    probe_toks = []
    for j in range((A if A and A > 0 else 2) + 2):
        tok = f"p{j}"
        probe_toks.append(tok)
        msgs.append({"at": t_probe, "tok": tok, "task": "t_async", "beh": {"dur": [10.0], "out": "ok"}})
    for j in range(2):
        msgs.append({"at": t_probe, "tok": f"q{j}", "task": "t_async", "beh": {"dur": [0.1], "out": "ok"}})
    mw = {h: {"async": rng.random() < 0.5, "lat": rng.choice([0, "y", 0.01]), "raise": toks,
              "raise_exc": rng.choice(["HookBoom", "HookBoom", "CancelledError"])}
          for h, toks in hook_raise.items() if toks}
    spec: Dict[str, Any] = {
        "cfg": {"A": A, "P": rng.choice([0, 0, 1, 2, 3]), "W": rng.choice([None, None, None, 0.3, 2.0])}, "msgs": msgs, "end_stream": True,
        "backend": {"lat": rng.choice([0, "y", 0.01, 0.01, 0.3]), "fail": fail, "fail_cancel": fail_cancel},
        "_probe_toks": probe_toks,
    }
    spec["cfg"]["ack"] = rng.choice(["when_saved", "when_saved", "when_executed", "when_received"])
    if any(m_.get("task") == "t_decl_to" for m_ in msgs):
        spec["tasks"] = {"t_decl_to": {"fn": "async", "labels": {"timeout": 600}}}
    if spec["backend"]["lat"] == 0.3:
        spec["cfg"]["W"] = None  # (a slow store: every message is being processed until its result is written)
    if fail and rng.random() < 0.5:
        # the store refuses these results for good, with the error classes of a network client
        spec["backend"]["fail_exc"] = rng.choice(["ConnectionError", "ConnectionError", "TimeoutError", "socket.timeout", "KeyError"])
    if rng.random() < 0.1:
        spec["cfg"]["no_executor"] = True  # Receiver(executor=None): sync functions go to the loop's default pool
    if rng.random() < 0.2:
        # some task functions wait for a reply held only by a weak registry while the garbage collector runs
        for m in msgs[:n]:
            if m.get("kind", "valid") == "valid" and m["task"] == "t_async" and m["beh"].get("dur") and m.get("timeout") is None \
                    and m.get("timeout_raw") is None and rng.random() < 0.5:
                m["beh"]["dur"] = [rng.choice(["w0.05", "w0.3", "w1.0"])]
    r_x = rng.random()
    if r_x < 0.1:
        # a message with a timeout label hands itself back (Context.requeue); its second delivery hangs, and only the label -
        # which belongs to the message, whichever delivery it is - ends it and frees the slot
        spec["loopback"] = True
        for m in msgs[:n]:
            if m.get("kind", "valid") == "valid" and m["task"] == "t_async" and m.get("timeout") is None and m.get("timeout_raw") is None \
                    and rng.random() < 0.3:
                m["task"] = "t_ctx"
                m["timeout"] = rng.choice([0.2, 0.5])
                m.pop("timeout_str", None)
                m["beh"] = [{"dur": [0.05], "out": "requeue"}, {"dur": ["never"], "out": "ok", "cleanup": rng.choice([[], ["y"]])}]
    elif r_x < 0.22 and spec["cfg"]["W"] is None:
        # the saturation probe's tasks have a slow dependency: A messages must be able to resolve dependencies at once
        # (slow enough for every slot to have been freed by the earlier messages while the first probe still resolves)
        spec["deps"] = {"dslow": {"style": rng.choice(["plain_async", "agen", "acm"]), "lat": 60.0, "subs": []}}
        spec.setdefault("tasks", {})["t_probe_dep"] = {"fn": "async", "deps": ["dslow"]}
        spec["_probe_dep"] = True
        for m in msgs:
            if (m.get("tok") or "").startswith("p"):
                m["task"] = "t_probe_dep"
    if mw:
        spec["mws"] = [mw]
        post = [h for h in mw if h != "pre_execute"]
        if post and spec["cfg"]["W"] is None and rng.random() < 0.5:
            # a sibling middleware whose hooks of the same kind are slow: they belong to the processing of the message
            slow = {h: {"async": True, "lat": rng.choice([0.3, 0.3, 1.0]), "style": rng.choice(["async", "async", "awaitable", "task"])} for h in post}
            spec["mws"] = [slow, mw] if rng.random() < 0.7 else [mw, slow]
    if not A or A < 0:
        spec["cfg"]["threads"] = len(msgs) + 2  # no limit: every sync function may hold a thread at the same time
    spec["horizon"] = est_horizon(spec) + 10 * ((A if A and A > 0 else 2) + 2) + (70.0 * (len(probe_toks) + 2) if spec.get("_probe_dep") else 0.0)
    if rng.random() < 0.1 and A:
        spec["via"] = "api"  # taskiq.api.run_receiver_task (never returns: judged at the horizon)
        spec["end_stream"] = False
    return spec


class C03(WorkerCheck):
    pid = "C03"
    wiring_fields = ["max_async_tasks"]
    rule = ("Scenario = history of 5-40 messages with outcomes {ok, raise, timeout, no-result, malformed, unknown "
            "task, backend failure, raising pre_execute/post_execute/on_error/post_save hook} (one outcome made "
            "dominant so it occurs >= limit times; timeout labels as number or string, zero, or not a number), limit A in "
            "1..5 or switched off (None/0/-1), prefetch 0..3, followed by a saturation probe "
            "(A+2 ten-second tasks, then short ones), stream end. Oracle: #messages in processing <= A at every "
            "event; A=1 => disjoint and in delivery order; probe reaches exactly A concurrent tasks; every valid "
            "message executes; listen() returns (no stall/deadlock). Non-trivial: history contains >=1 non-ok "
            "outcome; distinct = distinct (kind, delivery) sequences.")
    floors = {"counters.cli_command_lines": 30, "counters.api_receivers_built": 30, "events.cb_enter": 2000, "counters.probe_saturated": 50, "events.set_fail": 20}
    quick_cases = 2000
    thorough_cases = 40000
    assumptions = ["a failing hook means the hook raises an Exception subclass"]

    def cases(self, rng: random.Random, tier: str, shard: int, nshards: int) -> Iterator[Any]:
        while True:
            yield gen_c03_spec(rng, 30 if tier == "quick" else 60)

    def judge(self, rr: RunResult, spec: Dict[str, Any], cr: CaseResult) -> None:
        v, stats = O.oracle_c03(rr, spec)
        cr.violations += v
        A = spec["cfg"]["A"]
        if stats["probe_max"] == (A if A and A > 0 else len(spec["_probe_toks"])):
            cr.counters["probe_saturated"] += 1
        cr.counters[f"limit_{A}"] += 1

    def nontrivial(self, rr: RunResult, spec: Dict[str, Any]) -> bool:
        return any(e["k"] in ("set_fail", "cb_raise") or (e["k"] == "task_end" and e.get("how") != "return")
                   or (e["k"] == "yield" and e["mk"] != "valid") for e in rr.trace)

    def selftest(self) -> List[str]:
        class _RR:
            outcome = "returned"
            err = None
        r = _RR()
        r.trace = [{"i": 0, "t": 0, "k": "yield", "m": 0, "mk": "valid"}, {"i": 1, "t": 0, "k": "yield", "m": 1, "mk": "valid"},
                   {"i": 2, "t": 0, "k": "cb_enter", "m": 1}, {"i": 3, "t": 0, "k": "cb_enter", "m": 0},
                   {"i": 4, "t": 0, "k": "task_start", "m": 0, "tok": "p0"}, {"i": 5, "t": 0, "k": "task_start", "m": 1, "tok": "m1"}]
        kinds = {x.kind for x in O.oracle_c03(r, {"cfg": {"A": 1}, "_probe_toks": ["p0", "p1"]})[0]}
        want = {"over-admission", "order-broken"}
        return [] if want <= kinds else [f"C03 oracle missed {want - kinds}"]


# ====================================================================================
# C04


def gen_c04_spec(rng: random.Random, A: int, P: int) -> Dict[str, Any]:
    bound = A + P + 1
    n = 2 * bound + rng.randint(0, 6)
    pat = rng.choice(["upfront", "upfront", "burst", "trickle", "idle_burst", "idle_burst"])
    msgs = []
    t = 0.0
    lead = rng.randint(0, 2)
    sync_tasks = rng.random() < 0.2  # slow *sync* task functions (executor threads held for virtual time)
    for i in range(n):
        if pat == "idle_burst":
            # a few early messages, an idle gap of several poll periods, then the whole backlog at once
            if i == lead:
                t += rng.choice([0.35, 0.7, 1.0, 1.4, 1.6, 2.5, 3.1, 3.1, 4.7])
        elif pat == "burst" and i and i % rng.randint(2, 5) == 0:
            t += rng.choice([0.1, 0.3, 0.5])
        elif pat == "trickle":
            t += rng.choice([0, EPS, 0.01, 0.05])
        dur = rng.choice([[0.5], [1.0], [2.0], [0.3], [5.0], ["never"], [0.05], ["y"], [0.31]])
        if pat == "idle_burst":
            dur = [0.05] if i < lead else rng.choice([[5.0], [8.0], ["never"], [2.0]])
        if sync_tasks:
            msgs.append({"at": round(t, 6), "task": "t_sync", "ackable": True, "ack_kind": rng.choice(["sync", "async", "async", "awaitable", "task"]),
                         "beh": {"dur": [], "sync_hold": rng.choice([0.5, 1.0, 2.0, 5.0]), "out": rng.choice(["ok", "ok", "raise:ValueError"])}})
            continue
        msgs.append({"at": round(t, 6), "task": "t_async", "ackable": True,
                     "ack_kind": rng.choice(["sync", "async", "async", "awaitable", "task"]),
                     "ack_lat": rng.choice([0, 0.05, 0.4]), "beh": {"dur": dur, "out": rng.choice(["ok", "ok", "raise:ValueError"])}})
        if rng.random() < 0.06:
            # a timeout label that is not a number: the message fails, and its function must not be running anywhere
            msgs[-1]["timeout_raw"] = rng.choice(["soon", "30s", ""])
            msgs[-1]["beh"]["dur"] = [rng.choice([2.0, 5.0, "never"])]
        elif rng.random() < 0.15:
            # a timeout label that fires: the slot must stay taken until the function has really stopped
            msgs[-1]["timeout"] = rng.choice([0.05, 0.2])
            msgs[-1]["beh"]["dur"] = [rng.choice([1.0, "never"])]
            if rng.random() < 0.5:
                msgs[-1]["beh"]["cleanup"] = rng.choice([["y"], [0.3]])
    if rng.random() < 0.2:
        # junk on a shared queue: unparseable messages / messages for unknown tasks reach the worker before the backlog
        k = rng.randint(1, 6)
        junk = [{"at": 0.0, "kind": rng.choice(["malformed", "unknown"]), "variant": rng.randint(0, 15), "task": "t_async", "ackable": False,
                 "beh": {"dur": [], "out": "ok"}} for _ in range(k)]
        for m in msgs:
            m["at"] = round(m["at"] + 0.5, 6)
        msgs = junk + msgs
    spec: Dict[str, Any] = {"cfg": {"A": A, "P": P, "ack": rng.choice(["when_saved", "when_saved", "when_executed", "when_received"]), "threads": 32,
                                    "ctor_positional": rng.random() < 0.2},
                            "msgs": msgs, "backend": {"lat": rng.choice([0, 0.05, 0.2, 0.2, 2.6])}}
    if not sync_tasks and rng.random() < 0.15:
        # task functions with yield-style dependencies whose teardown takes time: the message is being processed
        # until they are closed
        spec["deps"] = {"dA": {"style": "agen", "td_lat": rng.choice([0.3, 1.0]), "subs": []},
                        "dB": {"style": rng.choice(["gen", "acm"]), "td_lat": 0.2, "subs": []}}
        spec["tasks"] = {"t_deps": {"fn": "async", "deps": ["dA", "dB"]}}
        for m in msgs:
            if m.get("kind", "valid") == "valid" and m["task"] == "t_async":
                m["task"] = "t_deps"
    if rng.random() < 0.25:
        # hostile extra: some messages hit a raising hook or a failing backend (the bound must survive that)
        toks = [f"m{i}" for i in range(len(msgs)) if rng.random() < 0.3]
        h = rng.choice(["pre_execute", "post_execute", "post_save", "on_error"])
        spec["mws"] = [{h: {"async": rng.random() < 0.5, "raise": toks}}]
        if h != "pre_execute" and rng.random() < 0.5:
            # a sibling middleware whose hook of the same kind is slow: it still belongs to the message when the other raises
            slow = {h: {"async": True, "lat": rng.choice([0.3, 1.0, 2.0]), "style": rng.choice(["async", "async", "awaitable", "task"])}}
            spec["mws"] = [slow, spec["mws"][0]] if rng.random() < 0.7 else [spec["mws"][0], slow]
        spec["backend"]["fail"] = [f"m{i}" for i in range(len(msgs)) if rng.random() < 0.1]
        if h == "post_execute" and rng.random() < 0.6:
            # ... with the acknowledgement due right before that hook, and slow
            spec["cfg"]["ack"] = "when_executed"
            for m in msgs:
                if m.get("ackable") and m.get("kind", "valid") == "valid":
                    m["ack_kind"] = rng.choice(["async", "task", "awaitable"])
                    m["ack_lat"] = rng.choice([0.4, 1.0])
    elif rng.random() < 0.2:
        # slow (well-behaved) middleware hooks: the message is being processed while they run
        spec["mws"] = [{h: {"async": True, "lat": rng.choice([0.3, 1.0, 2.0]), "style": rng.choice(["async", "async", "awaitable", "task"])}
                        for h in rng.sample(["pre_execute", "post_execute", "post_save", "on_error"], rng.randint(1, 2))}]
    if not sync_tasks and "tasks" not in spec and rng.random() < 0.12:
        # task functions that hand their message back (Context.requeue) through a broker whose send takes time; with a
        # timeout label that fires during the send the message ends - and the send must have ended with it
        spec["kick_lat"] = rng.choice([0.5, 1.0, 2.0])
        for m in msgs:
            if m.get("kind", "valid") == "valid" and m["task"] == "t_async" and m.get("timeout_raw") is None and rng.random() < 0.4:
                m["task"] = "t_ctx"
                m["beh"] = {"dur": [rng.choice([0.0, 0.05])], "out": "requeue"}
                m.pop("timeout", None)
                if rng.random() < 0.7:
                    m["timeout"] = rng.choice([0.2, 0.3])
    elif not sync_tasks and "tasks" not in spec and "mws" not in spec and rng.random() < 0.12:
        # failing tasks re-sent by the retry middleware through a broker whose send takes time: the re-send is part of
        # handling the failed message
        spec["retry"] = {"default_count": 2, "default_label": False, "no_result_on_retry": rng.random() < 0.5, "pos": 0}
        spec["kick_lat"] = rng.choice([0.5, 1.0, 2.0])
        for m in msgs:
            if m.get("kind", "valid") == "valid" and m["task"] == "t_async" and rng.random() < 0.6:
                m["beh"]["out"] = "raise:ValueError"
                m["labels"] = {"retry_on_error": True, "max_retries": 2}
    if rng.random() < 0.15:
        # options that govern the end of the worker's life must not change how much it takes while it lives
        spec["cfg"]["W"] = rng.choice([0.2, 0.5, 1.0])
    if rng.random() < 0.15:
        spec["cfg"]["N"] = rng.randint(bound + 2, max(bound + 2, len(msgs)))
    if rng.random() < 0.1 and "stop_at" not in spec:
        spec["via"] = "api"
    if rng.random() < 0.3:
        spec["stop_at"] = rng.choice([0.5, 1.0, 2.2])
    spec["horizon"] = 40.0
    return spec


class C04(WorkerCheck):
    pid = "C04"
    wiring_fields = ["max_async_tasks", "max_prefetch"]
    rule = ("All 20 (A in 1..4) x (P in 0..4) pairs in every shard; backlog 2(A+P+1)+k messages ready up-front, in "
            "bursts or trickling, durations from one yield to never-ending, ackable with when_saved and slow "
            "backend/ack. Oracle after every event: #yielded - #finished <= A+P+1. Tightness is not demanded; the "
            "maximum seen per pair is reported. Non-trivial: the backlog exceeded the bound (worker saturated); "
            "distinct = distinct (kind, delivery) sequences.")
    floors = {"counters.cli_command_lines": 30, "counters.api_receivers_built": 30, "events.yield": 1000, "counters.pairs_covered": 20}
    quick_cases = 1600
    thorough_cases = 30000
    assumptions = ["a message is finished when Receiver.callback() has returned, its task function body has ended and its acknowledgement has completed (an ackable well-formed message whose processing did not abort is unfinished until then)"]

    def cases(self, rng: random.Random, tier: str, shard: int, nshards: int) -> Iterator[Any]:
        while True:
            for A in range(1, 5):
                for P in range(0, 5):
                    yield gen_c04_spec(rng, A, P)

    def judge(self, rr: RunResult, spec: Dict[str, Any], cr: CaseResult) -> None:
        v, mx = O.oracle_c04(rr, spec)
        cr.violations += v
        A, P = spec["cfg"]["A"], spec["cfg"]["P"]
        key = f"max_A{A}_P{P}"
        cr.counters[key] = max(cr.counters.get(key, 0), mx)
        if mx == A + P + 1:
            cr.counters["runs_reaching_bound"] += 1
        if rr.outcome in ("deadlock", "raised"):
            cr.violations.append(Violation("worker-stalled", f"outcome {rr.outcome} {rr.err}"))

    def nontrivial(self, rr: RunResult, spec: Dict[str, Any]) -> bool:
        return len(spec["msgs"]) > spec["cfg"]["A"] + spec["cfg"]["P"] + 1

    def post_merge(self, merged: Dict[str, Any]) -> None:
        merged["counters"]["pairs_covered"] = sum(1 for k in merged["counters"] if k.startswith("max_A"))
        WorkerCheck.post_merge(self, merged)

    def selftest(self) -> List[str]:
        class _SC:
            deliveries = [{"d": i, "ackable": True, "kind": "valid"} for i in range(4)]

        class _RR:
            sc = _SC()
        r = _RR()
        r.trace = [{"i": i, "t": 0, "k": "yield", "m": i} for i in range(4)]
        v, mx = O.oracle_c04(r, {"cfg": {"A": 1, "P": 1}})
        fails = [] if v and mx == 4 else ["C04 oracle missed bound excess"]
        # callback returned but the acknowledgement never completed -> still unfinished
        r.trace = []
        for i in range(4):
            r.trace += [{"k": "yield", "m": i}, {"k": "task_start", "m": i}, {"k": "task_end", "m": i}, {"k": "cb_exit", "m": i}]
        r.trace = [dict(e, i=j, t=0) for j, e in enumerate(r.trace)]
        v, mx = O.oracle_c04(r, {"cfg": {"A": 1, "P": 1}})
        if not v:
            fails.append("C04 oracle missed un-acknowledged finished callbacks")
        return fails


# ====================================================================================
# C05


def gen_c05_spec(rng: random.Random, maxn: int = 16) -> Dict[str, Any]:
    n = rng.choice([1, 2, 3, 4, 6, 8, 12, maxn])
    ats = gen_arrivals(rng, n)
    cfg = gen_cfg(rng)
    cfg["W"] = rng.choice([None, None, 0, 0.0, 0.5, 1.0, 5.0])
    cfg["ack"] = rng.choice(["when_saved", "when_executed", "when_received"])
    durs = DURS + [[3.0], [8.0]]
    msgs = []
    for i in range(n):
        beh = gen_beh(rng, ["ok", "ok", "raise", "noresult"], durs)
        if rng.random() < (0.15 if cfg["W"] is not None else 0.03):
            beh["dur"] = ["never"]
        if rng.random() < 0.12 and beh["dur"] != ["never"]:
            # a timeout label that fires; the function needs a while to wind down after the cancellation
            beh["dur"] = [rng.choice([0.5, 1.0, 3.0])]
            beh["cleanup"] = rng.choice([["y"], [0.3], [1.0], [2.5]])
        m = {"at": ats[i], "task": "t_async", "ackable": rng.random() < 0.7, "ack_kind": rng.choice(["sync", "async", "async", "awaitable", "task"]),
             "ack_raise": rng.random() < 0.08,
             "ack_lat": rng.choice([0, 0, "y", 0.05, 0.4]), "beh": beh,
             "kind": "valid" if rng.random() < 0.9 else rng.choice(["malformed", "unknown"]),
             "variant": rng.randint(0, 15)}
        if beh.get("cleanup"):
            m["timeout"] = rng.choice([0.05, 0.2])
        msgs.append(m)
    if rng.random() < 0.12:
        # an at-least-once broker re-delivers a message (same bytes) while its first delivery is still running
        cands = [i for i, m in enumerate(msgs) if m["kind"] == "valid" and (O._dur_total(m["beh"]) or 0) >= 0.5 and not m.get("ack_raise")]
        if cands:
            i = rng.choice(cands)
            msgs.append({"dup_of": i, "at": round(msgs[i]["at"] + rng.choice([0.01, 0.1, 0.3]), 6), "kind": "valid", "task": "t_async",
                         "ackable": msgs[i]["ackable"], "beh": msgs[i]["beh"]})
    if cfg["W"] is not None and rng.random() < 0.3:
        # sync task functions still holding their executor thread when wait_tasks_timeout elapses (no concurrency limit, so
        # that finding F6 stays out of the picture): the worker gives up on them and returns
        cfg["A"] = None
        for m_ in msgs:
            if m_.get("dup_of") is None and m_["kind"] == "valid" and m_.get("timeout") is None and rng.random() < 0.5:
                m_["task"] = "t_sync"
                m_["beh"] = {"dur": [], "sync_hold": rng.choice([1.0, 2.0, 5.0]), "out": "ok", "value": 1}
    cfg["threads"] = len(msgs) + 2
    spec: Dict[str, Any] = {"cfg": cfg, "msgs": msgs, "backend": {"lat": rng.choice([0, 0, 0.05, 0.4])}}
    if rng.random() < 0.1:
        # another worker object listens in the same process and is busy with a task of its own that never ends: this
        # worker's shutdown is about this worker's messages
        spec["twin_receiver"] = "busy"
    if rng.random() < 0.15:
        # hostile extra: processing of some messages fails outside the task function (raising hook)
        toks = [f"m{i}" for i in range(n) if rng.random() < 0.3]
        spec["mws"] = [{rng.choice(["post_execute", "post_save", "pre_execute"]): {"async": rng.random() < 0.5, "raise": toks}}]
    mode = rng.choice(["stop", "stop", "stop", "end", "none"])
    if mode == "stop":
        spec["stop_at"] = round(rng.choice([0.0, EPS, 0.1, 0.3, 0.3 + EPS, 0.45, 0.6, 1.0, 2.0, 4.0]) + rng.choice([0, 0, rng.random()]), 6)
    elif mode == "end":
        spec["end_stream"] = True
    spec["horizon"] = est_horizon(spec) + 10
    return spec


class C05(WorkerCheck):
    pid = "C05"
    wiring_fields = ["max_tasks_to_execute", "wait_tasks_timeout"]
    rule = ("Scenario = message script (short/long/never-ending tasks, slow acks/backend) x (A,P,N,"
            "wait_tasks_timeout) x shutdown cause (finish event at a random/event-aligned instant, stream end, "
            "max-tasks recycle); sweep cases re-run one script with the stop at every observed event instant "
            "-eps/=/+eps and a 0.1 s grid. Oracle (virtual time): <=1 message taken after the request; at return "
            "every accepted message finished incl. ack unless W elapsed; bounded progress: return <= max(last "
            "completion, request)+1 s (W None) or <= min(last completion, T_ref+W)+1 s where T_ref is the latest "
            "defensible start of the timeout; N => exactly N messages taken. Non-trivial: a shutdown request was "
            "observed while >=1 accepted message was unfinished; distinct = distinct (kind, delivery) sequences. Real-process cross-check (shard 0; 4 runs quick, 64 thorough): `python -m taskiq worker` with a scripted broker module, stopped by SIGINT/SIGTERM to the main process; judged on the order of the worker's own event log (<=1 message taken after its signal handler ran, every taken message started, ended, acknowledged before broker shutdown, concurrency and prefetch bounds, exit status 0, no restart).")
    floors = {"counters.cli_command_lines": 30, "counters.api_receivers_built": 30, "events.stop": 200, "events.listen_returned": 300, "counters.stop_instants": 20,
              "counters.real_worker_runs": 3, "counters.real_worker_stop_requests_seen": 3}
    quick_cases = 3000
    thorough_cases = 50000
    thorough_time = 420.0
    assumptions = [
        "promptness slack is 2.0 virtual seconds (code polls every 0.3 s)",
        "wait_tasks_timeout may start counting as late as max(stop request, last message start)",
    ]

    def cases(self, rng: random.Random, tier: str, shard: int, nshards: int) -> Iterator[Any]:
        i = 0
        while True:
            k = 12 if tier == "quick" else 15
            if i % k == 0:
                spec = gen_c05_spec(rng, 6)
                spec.pop("stop_at", None)
                spec.pop("end_stream", None)
                spec["sweep"] = "full" if tier == "thorough" else "sample"
                spec["sweep_seed"] = rng.randint(0, 10 ** 9)
            else:
                spec = gen_c05_spec(rng, 16 if tier == "quick" else 30)
            i += 1
            yield spec

    def shard_epilogue(self, tier: str, shard: int, rng: random.Random) -> Dict[str, int]:
        """Besides the wiring probes: real `taskiq worker` processes (process manager, forked worker, real loop, thread or
        process pool) fed a scripted stream and stopped with SIGINT / SIGTERM; the oracle reads the order of the
        lines of the event log the broker module writes (mon/worker_real.py).  Shard 0 only."""
        out: Dict[str, Any] = dict(super().shard_epilogue(tier, shard, rng))
        if shard != 0:
            return out
        from mon import worker_real

        r = worker_real.cross_check(4 if tier == "quick" else 64, rng.randint(0, 10 ** 9), parallel=4 if tier == "quick" else 8)
        first = r.pop("first", None)
        r.pop("first_inconclusive", None)
        out.update(r)
        if first:
            out["real_first::" + json.dumps(first)[:1800]] = 1
        return out

    def post_merge(self, merged: Dict[str, Any]) -> None:
        super().post_merge(merged)
        c = merged["counters"]
        if c.get("real_worker_violations", 0):
            first = next((k.split("::", 1)[1] for k in c if k.startswith("real_first::")), "{}")
            try:
                fd = json.loads(first)
            except ValueError:
                fd = {"msg": first}
            slot = merged["violations"].setdefault("real-worker-graceful-stop", {"count": 0, "first": None})
            slot["count"] += c["real_worker_violations"]
            if slot["first"] is None:
                slot["first"] = {"kind": "real-worker-graceful-stop", "msg": "`taskiq worker` (real processes): " + str(fd.get("msg")),
                                 "detail": fd.get("log"), "spec": {"mode": "real-worker", **(fd.get("spec") or {})}, "trace": None}

    def judge(self, rr: RunResult, spec: Dict[str, Any], cr: CaseResult) -> None:
        cr.violations += O.oracle_c05(rr, spec)
        if spec["cfg"].get("W") is not None:
            cr.counters["with_wait_timeout"] += 1
        if spec["cfg"].get("N"):
            cr.counters["with_max_tasks"] += 1

    def nontrivial(self, rr: RunResult, spec: Dict[str, Any]) -> bool:
        stop = O.first(rr.trace, "stop")
        if stop is None:
            return False
        open_n = 0
        for e in rr.trace:
            if e["i"] >= stop["i"]:
                break
            if e["k"] == "yield":
                open_n += 1
            elif e["k"] == "cb_exit":
                open_n -= 1
        return open_n >= 1


# ====================================================================================
# C06 / C12 dependency graphs


STYLES_TD = ["gen", "agen", "cm", "acm"]
STYLES_ALL = STYLES_TD + ["plain_sync", "plain_async"]


def gen_dep_graph(rng: random.Random, depth: int, teardown_bias: bool, lat_pool: List[Any]) -> "tuple[Dict[str, Any], List[str]]":
    """Returns (deps, roots): a random DAG of dependency nodes up to `depth`."""
    deps: Dict[str, Any] = {}
    counter = [0]

    def node(level: int) -> str:
        name = f"d{counter[0]}"
        counter[0] += 1
        style = rng.choice(STYLES_TD if (teardown_bias and rng.random() < 0.8) else STYLES_ALL)
        nd: Dict[str, Any] = {"style": style, "cache": rng.random() < 0.6, "ctx": rng.random() < 0.8, "subs": []}
        if style in ("plain_async", "agen", "acm"):
            nd["lat"] = rng.choice(lat_pool)
            if rng.random() < 0.3:
                nd["td_lat"] = rng.choice(["y", 0.01, 0.3, 0.5] if teardown_bias else ["y", 0.01])
        deps[name] = nd
        if level < depth:
            for _ in range(rng.choice([0, 1, 1, 2])):
                if deps and rng.random() < 0.25 and len(deps) > 1:
                    # share an existing lower node (diamond) if it does not create a cycle: only pick later-created nodes
                    cands = [n for n in deps if int(n[1:]) > int(name[1:])]
                    if cands:
                        c = rng.choice(cands)
                        if c not in nd["subs"]:
                            nd["subs"].append(c)
                        continue
                nd["subs"].append(node(level + 1))
        return name

    roots = [node(1) for _ in range(rng.choice([1, 1, 2, 3]))]
    return deps, roots


def gen_c06_spec(rng: random.Random, depth: int, maxmsgs: int) -> Dict[str, Any]:
    tasks: Dict[str, Any] = {}
    deps: Dict[str, Any] = {}
    ntasks = rng.choice([1, 1, 2])
    for ti in range(ntasks):
        d, roots = gen_dep_graph(rng, depth, False, [0, "y", 0.01, 0.05, 0.1, 0.2])
        ren = {k: f"t{ti}{k}" for k in d}
        for k, nd in d.items():
            nd["subs"] = [ren[s] for s in nd["subs"]]
            deps[ren[k]] = nd
        tasks[f"task{ti}"] = {"fn": rng.choice(["async", "async", "sync"]), "deps": [ren[r] for r in roots], "ctx": True}
        if rng.random() < 0.4:
            tasks[f"task{ti}"]["labels"] = rng.choice([{"priority": 1}, {"team": "core", "q": 2}])
        if tasks[f"task{ti}"]["fn"] == "async" and rng.random() < 0.3:
            tasks[f"task{ti}"]["progress"] = True  # ProgressTracker dependency (reports, then updates state only)
    if ntasks == 2 and rng.random() < 0.25:
        # one of the two is a task of the process-wide shared broker, executed by this worker next to its own task
        tasks["task1"]["shared"] = True
        tasks["task1"].pop("labels", None)
    overrides: Dict[str, str] = {}
    if rng.random() < 0.3 and deps:
        # broker.dependency_overrides: a dependency is replaced by one whose own graph has an un-cached,
        # Context-reading sub-dependency resolved after a suspension
        orig = rng.choice(list(deps))
        deps["ovU"] = {"style": rng.choice(["plain_async", "agen", "plain_sync"]), "cache": False, "ctx": True, "subs": [],
                       "lat": rng.choice([0, 0.01, 0.05])}
        deps["ovS"] = {"style": "plain_async", "cache": True, "ctx": True, "subs": [], "lat": rng.choice([0.02, 0.05, 0.1])}
        deps["ovR"] = {"style": rng.choice(["plain_async", "plain_sync", "gen"]), "cache": deps[orig].get("cache", True),
                       "ctx": True, "subs": ["ovS", "ovU"], "lat": 0}
        overrides[orig] = "ovR"
    n = rng.randint(2, maxmsgs)
    msgs = []
    t = 0.0
    for i in range(n):
        t += rng.choice([0, 0, EPS, 0.01, 0.03, 0.05, 0.1])
        tn = rng.choice(list(tasks))
        beh = gen_beh(rng, ["ok", "ok", "raise"], [[], ["y"], [0.05], [0.1], [0.3]])
        if tasks[tn]["fn"] == "sync":
            beh["dur"] = []
        if beh["out"].startswith("raise:") and rng.random() < 0.4:
            beh["out"] = "raise:LockedError"  # (cannot be pickled itself: a pickling backend stores a stand-in)
        msgs.append({"at": round(t, 6), "task": tn, "beh": beh, "ackable": rng.random() < 0.5,
                     "ack_kind": rng.choice(["sync", "async", "async", "task"]), "ack_lat": rng.choice([0, "y", 0.01, 0.05, 0.2]),
                     "labels": {"k": rng.randint(0, 9)}, "raw_labels": rng.random() < 0.2,
                     "partial_types": rng.random() < 0.1})
    spec: Dict[str, Any] = {"cfg": {"A": rng.choice([None, 2, 4, 8, 1]), "P": rng.choice([0, 2]),
                                    "ack": rng.choice(["when_saved", "when_executed", "when_received", "when_received"])},
                            "tasks": tasks, "deps": deps, "msgs": msgs, "end_stream": True, "overrides": overrides,
                            "backend": {"lat": rng.choice([0, 0.02]), "pickle": rng.random() < 0.5}}
    if rng.random() < 0.3:
        spec["mws"] = [{"pre_execute": {"async": True, "lat": rng.choice(["y", 0.02])}}]
    if rng.random() < 0.2:
        spec["via"] = "inmemory"  # same tasks through InMemoryBroker.kick (callback in a new asyncio task per kiq)
        spec["backend"]["stock"] = True  # results also go into the bundled InmemoryResultBackend
        for m in msgs:
            m.pop("raw_labels", None)
        if n >= 2 and rng.random() < 0.3:
            # task ids chosen by the caller that differ only in letter case: two ids, two results
            # (... or ids of which one looks like a derived key of the other)
            msgs[0]["tok"], msgs[1]["tok"] = rng.choice([("Report-A1", "report-a1"), ("JOB7", "job7"), ("abcDEF", "ABCdef"),
                                                         ("Job-1", "Job-1:progress"), ("Job-1:progress", "Job-1"), ("x", "x:result")])
            if ":" in msgs[0]["tok"] + msgs[1]["tok"]:
                for ts_ in tasks.values():
                    if ts_["fn"] == "async":
                        ts_["progress"] = True  # (both report progress through the bundled backend)
        if rng.random() < 0.7:
            # the client fetches all results with taskiq.gather(), handles in an order of its own
            order = [m.get("tok") or f"m{i}" for i, m in enumerate(msgs)]
            rng.shuffle(order)
            spec["gather"] = order
    elif rng.random() < 0.25 and not any(ts.get("progress") for ts in tasks.values()):
        # redelivered / re-used task ids: two messages with one id (different content) in flight together or back to back
        add_same_id_messages(rng, msgs, 0.4)
    elif rng.random() < 0.3:
        # messages with label names of their own, some of them handed back to the broker by their task (Context.requeue)
        # and delivered again: every delivery carries the labels of its message and no others
        spec["loopback"] = True
        spec["end_stream"] = False
        for i, m in enumerate(msgs):
            m["labels"][f"u{i}"] = rng.choice(["a", 1, 2.5, True] + ([] if m.get("raw_labels") else [b"\x00\xff"]))
            if tasks[m["task"]]["fn"] == "async" and rng.random() < 0.6:
                first = dict(m["beh"])
                first["out"] = "requeue"
                m["beh"] = [first, m["beh"]]
        spec["stop_at"] = round(2 * (est_horizon(spec) + 5 * len(deps)), 3)
        spec["horizon"] = 2 * spec["stop_at"] + 10
        return spec
    if not any(m.get("task_id") for m in msgs) and rng.random() < 0.3:
        # task functions that send another task from their body (with the in-place in-memory broker the child runs to its
        # end inside the parent's asyncio task)
        if spec.get("via") == "inmemory" and rng.random() < 0.6:
            spec["inplace"] = True
        for i, m in enumerate(msgs):
            b0 = m["beh"][0] if isinstance(m["beh"], list) else m["beh"]
            if tasks[m["task"]]["fn"] == "async" and rng.random() < 0.5:
                ct = rng.choice(list(tasks))
                cb = gen_beh(rng, ["ok", "ok", "raise"], [[], ["y"], [0.05]])
                if tasks[ct]["fn"] == "sync":
                    cb["dur"] = []
                b0["spawn"] = {"tok": f"ch{i}", "task": ct, "labels": {"k": rng.randint(0, 9), f"c{i}": "x"}, "beh": cb}
        if not spec.get("loopback"):
            spec["loopback"] = True
            spec["end_stream"] = False
            spec["stop_at"] = round(2 * (est_horizon(spec) + 5 * len(deps)) + 5, 3)
            spec["horizon"] = 2 * spec["stop_at"] + 10
            return spec
    spec["horizon"] = est_horizon(spec) + 5 * len(deps)
    return spec


class C06(WorkerCheck):
    pid = "C06"
    rule = ("Scenario = 2-6 overlapping messages for 1-2 generated task functions whose signatures carry random "
            "dependency DAGs up to depth 3 (cached / use_cache=False / nested / shared, sync, async, generator, "
            "async generator, (async) context manager; async ones with latency so other messages start in "
            "between). Every dependency and task echoes (Context.message.task_id, labels['own'], args[0]); the "
            "owner is known independently (contextvar set per callback task from the delivered object, or the "
            "argument token). Oracle: every echo equals the owner token; result stored under a task id was "
            "produced by that message and carries its labels; ack type and slow acks vary (a suspension between "
            "receiving and executing); in the in-memory mode the client collects results with taskiq.gather() over "
            "handles in its own order (k-th result must belong to the k-th handle); default task ids generated in 4 "
            "processes forked after import must not collide; concurrent kiq() calls on one kicker / task object through a "
            "suspending broker must each return a handle for their own message. Further dimensions: label *names* per message (every echo "
            "carries the names its Context holds), messages handed back with Context.requeue(), tasks that send a child task from "
            "their body (in-place in-memory broker: same asyncio task), a shared task next to own tasks, task ids differing only in "
            "letter case, a pickling result backend with an error that cannot be pickled. Non-trivial: >=2 executions overlapped in time and "
            ">=1 dependency echo checked; distinct = distinct (kind, delivery) sequences.")
    floors = {"counters.echoes_checked": 3000, "events.dep_open": 500, "counters.gather_calls_checked": 50,
              "counters.forked_ids_generated": 1000, "counters.shared_kicker_sends": 100}
    quick_cases = 2000
    thorough_cases = 40000
    assumptions = ["taskiq_dependencies 1.5.7 as installed in /venv is part of the system under observation"]

    def cases(self, rng: random.Random, tier: str, shard: int, nshards: int) -> Iterator[Any]:
        while True:
            yield gen_c06_spec(rng, 2 if tier == "quick" and rng.random() < 0.6 else 3, 6 if tier == "quick" else 8)

    def judge(self, rr: RunResult, spec: Dict[str, Any], cr: CaseResult) -> None:
        v, checked = O.oracle_c06(rr, spec)
        cr.violations += v
        cr.counters["echoes_checked"] += checked
        if spec.get("via") != "inmemory":
            # "the result stored under a task id is the one produced by executing the message that carried that id":
            # every delivery is executed, once (no execution stands in for another message)
            cr.violations += [x for x in O.oracle_c01(rr, spec) if x.kind in ("message-dropped", "executed-twice", "phantom-execution")]
        for e in rr.trace:
            if e["k"] == "foreign_result_visible":
                cr.violations.append(Violation("result-visible-through-another-broker", f"the result stored for {e['tok']} is reported ready by the result backend of another, idle InMemoryBroker of the process"))
            if e["k"] == "gather":
                cr.counters["gather_calls_checked"] += 1
                if e["got"] != e["want"]:
                    cr.violations.append(Violation("gather-result-of-another-message", f"taskiq.gather() over handles {e['want']} returned the results of {e['got']} {e.get('exc') or ''}"))
        if rr.outcome != "returned":
            cr.violations.append(Violation("worker-stalled", f"outcome {rr.outcome} {rr.err}"))

    def nontrivial(self, rr: RunResult, spec: Dict[str, Any]) -> bool:
        return C02.nontrivial(self, rr, spec) and any(e["k"] == "dep_open" for e in rr.trace)  # type: ignore[arg-type]

    def shard_epilogue(self, tier: str, shard: int, rng: random.Random) -> Dict[str, int]:
        """Results are bound to messages through the task id: ids produced by the default generator in
        processes forked from one parent that has already imported taskiq (what `taskiq worker --workers N`
        does) and in concurrent threads must not collide.  Real fork()s, shard 0 only."""
        if shard != 0:
            return {}
        out: Dict[str, Any] = fork_id_probe(4, 300 if tier == "quick" else 3000)
        r = shared_kicker_probe(60 if tier == "quick" else 1500, rng.randint(0, 10 ** 9))
        first = r.pop("first", None)
        out.update(r)
        if first:
            out["kicker_first::" + first[:300]] = 1
        return out

    def post_merge(self, merged: Dict[str, Any]) -> None:
        c = merged["counters"]
        if c.get("shared_kicker_mismatches", 0):
            first = next((k.split("::", 1)[1] for k in c if k.startswith("kicker_first::")), "see counters")
            slot = merged["violations"].setdefault("handle-bound-to-another-message", {"count": 0, "first": None})
            slot["count"] += c["shared_kicker_mismatches"]
            if slot["first"] is None:
                slot["first"] = {"kind": "handle-bound-to-another-message", "msg": first, "detail": None,
                                 "spec": {"mode": "shared-kicker-probe"}, "trace": None}
        if c.get("forked_id_collisions", 0):
            merged["violations"].setdefault("task-id-collision-across-processes", {"count": 0, "first": None})
            slot = merged["violations"]["task-id-collision-across-processes"]
            slot["count"] += c["forked_id_collisions"]
            if slot["first"] is None:
                slot["first"] = {"kind": "task-id-collision-across-processes",
                                 "msg": f"{c['forked_id_collisions']} task ids produced by the default id generator were produced twice "
                                        "by sibling processes forked after taskiq was imported (two messages would share one result slot)",
                                 "detail": None, "spec": {"mode": "fork-id-probe"}, "trace": None}


def shared_kicker_probe(rounds: int, seed: int) -> Dict[str, Any]:
    """The handle kiq() returns is bound to the message that call sent.  One kicker object (task.kicker().with_labels())
    or the task itself is used for several concurrent kiq() calls; broker.kick() and the pre_send hook suspend (as
    every network broker does), so the calls interleave.  Every handle must have its own task id and yield the
    result of its own arguments; post_send must see every message once."""
    import asyncio as _aio

    from taskiq import InMemoryBroker, TaskiqMiddleware

    rng = random.Random(seed)
    out: Dict[str, Any] = {"shared_kicker_sends": 0, "shared_kicker_mismatches": 0}

    async def one_round() -> None:
        plan = [rng.randint(0, 3) for _ in range(40)]

        class Net(InMemoryBroker):
            async def kick(self, message: Any) -> None:
                for _ in range(plan[sum(map(ord, message.task_id)) % len(plan)]):
                    await _aio.sleep(0)
                await super().kick(message)

        posts: List[str] = []

        class Mw(TaskiqMiddleware):
            async def pre_send(self, message: Any) -> Any:
                for _ in range(plan[int(message.args[0]) % len(plan)]):
                    await _aio.sleep(0)
                return message

            def post_send(self, message: Any) -> None:
                posts.append(message.task_id)

        broker = Net()
        if rng.random() < 0.6:
            broker.add_middlewares(Mw())

        @broker.task(task_name="probe_sq")
        async def sq(x: int) -> int:
            await _aio.sleep(0)
            return x * x + 1

        n = rng.randint(2, 7)
        how = rng.choice(["kicker", "kicker_labels", "task"])
        if how == "task":
            sends = [sq.kiq(i) for i in range(n)]
        else:
            k = sq.kicker() if how == "kicker" else sq.kicker().with_labels(group="batch")
            sends = [k.kiq(i) for i in range(n)]
        handles = await _aio.gather(*sends)
        await broker.wait_all()
        out["shared_kicker_sends"] += n
        ids = [h.task_id for h in handles]
        bad = None
        if len(set(ids)) != n:
            bad = f"{n} concurrent kiq() calls ({how}) returned handles for only {len(set(ids))} distinct task ids"
        else:
            for i, h in enumerate(handles):
                res = await h.wait_result(check_interval=0.001, timeout=5)
                if res.return_value != i * i + 1:
                    bad = f"the handle returned by kiq({i}) ({how}) yields the result {res.return_value!r} of another message"
                    break
        if bad is None and broker.middlewares and sorted(posts) != sorted(ids):
            bad = f"post_send saw messages {sorted(posts)} for handles {sorted(ids)} ({how})"
        if bad:
            out["shared_kicker_mismatches"] += 1
            out.setdefault("first", bad)

    for _ in range(rounds):
        loop = _aio.new_event_loop()
        try:
            loop.run_until_complete(_aio.wait_for(one_round(), timeout=30))
        except BaseException as exc:  # noqa: BLE001
            out["shared_kicker_mismatches"] += 1
            out.setdefault("first", f"concurrent kiq() round raised {exc!r}")
        finally:
            loop.close()
    return out


def fork_id_probe(nproc: int, per_proc: int) -> Dict[str, int]:
    import os as _os

    from taskiq import InMemoryBroker

    broker = InMemoryBroker()
    broker.id_generator()  # the generator has been used in the parent before the fork
    pipes = []
    for _ in range(nproc):
        r, w = _os.pipe()
        pid = _os.fork()
        if pid == 0:
            try:
                _os.close(r)
                ids = [broker.id_generator() for _ in range(per_proc)]
                with _os.fdopen(w, "w") as f:
                    f.write("\n".join(ids))
            finally:
                _os._exit(0)
        _os.close(w)
        pipes.append((pid, r))
    seen: Dict[str, int] = {}
    total = 0
    for pid, r in pipes:
        with _os.fdopen(r) as f:
            data = f.read()
        _os.waitpid(pid, 0)
        for i in data.split("\n"):
            if i:
                total += 1
                seen[i] = seen.get(i, 0) + 1
    return {"forked_processes": nproc, "forked_ids_generated": total, "forked_id_collisions": total - len(seen)}


# ====================================================================================
# C07


def gen_c07_spec(rng: random.Random) -> Dict[str, Any]:
    n = rng.randint(1, 10)
    ats = gen_arrivals(rng, n)
    msgs = []
    fail = []
    for i in range(n):
        task = rng.choice(["t_async", "t_async", "t_sync", "t_async", "t_async", "t_sync", "t_asyncified"])
        beh = gen_beh(rng, ["ok", "ok", "raise", "raise", "noresult"], allow_genexit=True)
        if beh["out"].startswith("raise:") and rng.random() < 0.12:
            beh["out"] = "raise:" + rng.choice(["Group1", "Group2", "GroupBase1", "GroupNoResult"])
        elif beh["out"].startswith("raise:") and rng.random() < 0.1:
            beh["out"] = "raise:LockedError"  # an exception object that cannot be pickled (it holds a lock)
        m: Dict[str, Any] = {"at": ats[i], "task": task, "ackable": rng.random() < 0.5, "beh": beh,
                             "labels": rng.choice([{}, {"a": 1}, {"s": "x", "f": 1.5, "b": True}, {"by": b"\xff\x00"},
                                                   {"_trace": "t-9", "X-Taskiq-origin": "edge", "__n": 2}, {"blob": b"", "z": 0, "e": "", "ff": False}])}
        if task == "t_sync":
            beh["dur"] = []
        if beh["out"] == "ok" and rng.random() < 0.1:
            beh["ret_handle"] = True  # the return value is an object with __await__ (sync and async functions alike)
        elif beh["out"] == "ok" and rng.random() < 0.08:
            beh["ret_exc"] = True  # the return value is an exception instance
        elif beh["out"] == "ok" and rng.random() < 0.1:
            beh["ret_model"] = rng.choice(["model", "dataclass"])  # ... a pydantic model / a dataclass instance
        elif beh["out"] == "ok" and rng.random() < 0.1:
            # the function has a return annotation and returns something else (that could be converted to it)
            m["task"], beh["ret_raw"] = rng.choice([("t_ret_int", "7"), ("t_ret_int", 3.0), ("t_ret_list", {"__tuple__": [1, 2]}),
                                                    ("t_ret_dict", {"n": "3"}), ("t_ret_int", True)])
            if m["task"] == "t_ret_list":
                beh["dur"] = []
        if task == "t_sync" or m["task"] == "t_ret_list":
            pass
        elif rng.random() < 0.45:
            d = O._dur_total(beh) or 0.0
            m["timeout"] = rng.choice([0.05, 0.2, round(max(EPS, d - EPS), 7), round(d + EPS, 7), d if d > 0 else 0.1,
                                       round(max(0.001, d / 2), 7), 10, 0.5, 0, 0.0, -1])
            if rng.random() < 0.2:
                beh["dur"] = ["never"]
            if rng.random() < 0.4:
                beh["cleanup"] = rng.choice([["y"], [0.05], [0.2]])
            if rng.random() < 0.3:
                m["timeout_str"] = True  # the label is a string ("0.3"), as in @broker.task(timeout="0.3")
        if rng.random() < 0.2:
            fail.append(f"m{i}")
        if rng.random() < 0.15:
            m["partial_types"] = True
        msgs.append(m)
    spec: Dict[str, Any] = {"cfg": {"A": rng.choice([1, 2, 4, None]), "P": rng.choice([0, 1]),
                                    "ack": rng.choice(["when_saved", "when_saved", "when_executed", "when_received"])}, "msgs": msgs,
                            "end_stream": True, "backend": {"lat": rng.choice([0, "y", 0.05]), "fail": fail}}
    if rng.random() < 0.2 and not any("never" in m_["beh"].get("dur", []) for m_ in msgs):
        # the worker is configured with a (short) wait_tasks_timeout: it is about shutting down, not about tasks
        spec["cfg"]["W"] = rng.choice([0.05, 0.2])
        spec["cfg"]["A"] = None
    if fail and rng.random() < 0.4:
        spec["backend"]["fail_noargs"] = True
    if rng.random() < 0.3:
        # results also go into the bundled InmemoryResultBackend, with a small capacity
        spec["backend"]["stock"] = True
        spec["backend"]["stock_max"] = rng.choice([1, 2, 3, 100])
    if rng.random() < 0.25:
        # middlewares that annotate the message they are handed after the execution
        spec["mws"] = [{h: {"async": rng.random() < 0.5, "mutate_labels": True} for h in ("on_error", "post_execute", "post_save") if rng.random() < 0.7}]
        if not spec["mws"][0]:
            spec.pop("mws")
        elif rng.random() < 0.4:
            # an at-least-once broker delivers one message again (same bytes) after the first delivery was annotated:
            # the second delivery is a message of its own
            cands = [i for i, m_ in enumerate(msgs) if m_["task"] == "t_async" and m_.get("timeout") is None and m_["beh"]["out"] != "noresult"
                     and "never" not in m_["beh"].get("dur", [])]
            if cands:
                i = rng.choice(cands)
                msgs.append({"dup_of": i, "at": round(msgs[i]["at"] + (O._dur_total(msgs[i]["beh"]) or 0) + rng.choice([0.0, 0.01, 0.3, 1.0]), 6),
                             "kind": "valid", "task": "t_async", "ackable": msgs[i]["ackable"], "beh": msgs[i]["beh"]})
                spec["no_inmemory"] = True
    if "mws" not in spec and rng.random() < 0.08:
        spec["mws"] = [{"pre_execute": {"async": rng.random() < 0.5, "retag": True}}]
        spec["no_inmemory"] = True
    if rng.random() < 0.15 and not spec.pop("no_inmemory", False):
        spec["via"] = "inmemory"
        spec["inplace"] = rng.random() < 0.5  # InMemoryBroker(await_inplace=True): kiq returns after the execution
    spec["horizon"] = est_horizon(spec)
    if spec["cfg"].get("W") is not None and spec.get("via") != "inmemory":
        # (the worker is stopped after everything has been processed: the timeout never has anything to wait for)
        spec["end_stream"] = False
        spec["stop_at"] = round(spec["horizon"] + 1.0, 3)
        spec["horizon"] = spec["stop_at"] + 30.0
    return spec


class C07(WorkerCheck):
    pid = "C07"
    rule = ("Scenario = 1-10 messages, sync/async task functions, return values of many JSON shapes, exceptions "
            "incl. BaseException subclasses (KeyboardInterrupt, SystemExit, CancelledError, GeneratorExit), "
            "no-result, timeout labels below/equal(+-1us)/above the duration and on never-ending tasks, typed "
            "labels, backend failing on a random subset. Oracle per execution on the object handed to "
            "set_result: count (0 iff no-result else 1), task id, is_err, return value, error class+args, "
            "TimeoutError iff duration > label (and the body saw the cancellation), labels equal the message's; "
            "failed saves never block this or later messages. Non-trivial: >=1 non-return outcome or timeout "
            "label; distinct = distinct (kind, delivery) sequences plus outcome tuple.")
    floors = {"counters.executions_checked": 2000, "events.set_fail": 50, "counters.timeouts_fired": 20}
    quick_cases = 3000
    thorough_cases = 50000

    def cases(self, rng: random.Random, tier: str, shard: int, nshards: int) -> Iterator[Any]:
        while True:
            yield gen_c07_spec(rng)

    def judge(self, rr: RunResult, spec: Dict[str, Any], cr: CaseResult) -> None:
        v, checked = O.oracle_c07(rr, spec)
        cr.violations += v
        cr.counters["executions_checked"] += checked
        cr.counters["timeouts_fired"] += sum(1 for e in rr.trace if e["k"] == "task_end" and e.get("how") == "cancelled")

    def nontrivial(self, rr: RunResult, spec: Dict[str, Any]) -> bool:
        return any(m.get("timeout") is not None or m["beh"]["out"] != "ok" for m in spec["msgs"])


# ====================================================================================
# C10


def gen_mw(rng: random.Random, hooks: List[str]) -> Dict[str, Any]:
    mw = {}
    for h in hooks:
        if rng.random() < 0.55:
            mw[h] = {"async": rng.random() < 0.5, "lat": rng.choice([0, 0, "y", 0.01, 0.05]),
                     "replace": rng.random() < 0.5}
            if rng.random() < 0.25:
                mw[h]["style"] = rng.choice(["awaitable", "task"])
    if mw and rng.random() < 0.2:
        next(iter(mw.values()))["inherit"] = True  # the whole middleware inherits its hooks from a base class
    return mw


def gen_c10_spec(rng: random.Random) -> Dict[str, Any]:
    allh = ["pre_send", "post_send", "pre_execute", "on_error", "post_execute", "post_save"]
    mws = [gen_mw(rng, allh) for _ in range(rng.randint(0, 3))]
    n = rng.randint(1, 6)
    sends = []
    fail_backend = []
    for i in range(n):
        tok = f"s{i}"
        beh = gen_beh(rng, ["ok", "raise", "noresult"], [[], ["y"], [0.02], [0.1]])
        task = rng.choice(["t_async", "t_async", "t_sync"])
        if task == "t_sync":
            beh["dur"] = []
        sends.append({"tok": tok, "task": task, "beh": beh, "at": rng.choice([0, 0, 0.01])})
        if task == "t_async" and rng.random() < 0.15:
            # the timeout label fires and the function takes a while to wind down
            beh["dur"] = [rng.choice([0.3, 1.0])]
            beh["cleanup"] = rng.choice([["y"], [0.05], [0.3]])
            sends[-1]["labels"] = {"timeout": rng.choice([0.02, 0.1])}
        elif task == "t_async" and rng.random() < 0.06:
            # a timeout label that is not a number: the execution fails like any other failing execution
            sends[-1]["labels"] = {"timeout": rng.choice(["soon", "", "1s"])}
        if "labels" not in sends[-1] and rng.random() < 0.08:
            # a parameter annotated with a plain class (no pydantic schema for it), a value sent for it
            sends[-1]["task"] = "t_plain" if task != "t_sync" else "t_plain_sync"
            sends[-1]["kwargs" if rng.random() < 0.5 else "args"] = rng.choice([{"obj": 5}, [5]])
            if isinstance(sends[-1].get("args"), dict):
                sends[-1]["args"] = [5]
            if isinstance(sends[-1].get("kwargs"), list):
                sends[-1]["kwargs"] = {"obj": "x"}
        if rng.random() < 0.08:
            sends[-1]["bad_arg"] = True  # the message cannot be encoded: the send fails before the broker is reached
        elif rng.random() < 0.12:
            sends[-1]["via_broker2"] = True  # task.kicker().with_broker(other): the other broker's hooks apply
        if rng.random() < 0.2:
            fail_backend.append(tok)
    kick_fail = sorted(rng.sample(range(n), rng.choice([0, 0, 1, min(2, n)])))
    spec: Dict[str, Any] = {"cfg": {"A": rng.choice([1, 2, 4, None]), "P": rng.choice([0, 1]), "propagate": rng.random() < 0.7,
                                    "ack": rng.choice(["when_saved", "when_saved", "when_executed", "when_received"])},
                            "loop_ackable": rng.random() < 0.5,
                            "mw_eq": rng.random() < 0.25, "mw_reg": rng.choice(["add", "add", "with", "split_with", "add_then_with"]),
                            "mws": mws, "client_sends": sends, "loopback": True, "kick_fail": kick_fail,
                            "kick_exc": [rng.choice(["BackendDown", "ConnectionError", "BrokerError", "ResultSetError",
                                                     "TaskiqResultTimeoutError", "UnknownTaskError", "TaskiqError"])
                                         for _ in range(3)],
                            "kick_lat": rng.choice([0, 0, 0.01]),
                            "backend": {"lat": rng.choice([0, "y", 0.02]), "fail": fail_backend},
                            "stop_at": 8.0, "horizon": 40.0, "msgs": [],
                            "mws2": [gen_mw(rng, ["pre_send", "post_send"]) for _ in range(rng.randint(0, 2))]}
    if rng.random() < 0.12 and not any(s.get("via_broker2") for s in sends):
        spec["via"] = "inmemory"
        spec["kick_lat"] = 0
    elif rng.random() < 0.2:
        # SimpleRetryMiddleware somewhere in the stack: its re-sends are sends too (pre_send . kick . post_send)
        spec["retry"] = {"default_count": 3, "default_label": False, "no_result_on_retry": rng.random() < 0.5, "pos": rng.randint(0, len(mws))}
        spec["kick_fail"] = []
        for s_ in sends:
            s_.pop("via_broker2", None)
            if rng.random() < 0.7:
                s_["labels"] = {"retry_on_error": True, "max_retries": rng.choice([2, 3])}
                b0 = s_["beh"]
                s_["beh"] = [dict(b0, out=rng.choice(["raise:ValueError", "ok", "raise:KeyError"])) for _ in range(3)]
                s_["beh"][0]["out"] = "raise:ValueError"
    elif rng.random() < 0.2:
        # task functions that hand their message back to the broker (Context.requeue): the next delivery is an
        # execution like any other
        spec["kick_fail"] = []
        for s_ in sends:
            if s_["task"] == "t_async" and "labels" not in s_ and not s_.get("via_broker2") and not s_.get("bad_arg") and rng.random() < 0.6:
                s_["task"] = "t_ctx"
                s_["beh"] = [dict(s_["beh"], out="requeue")] * rng.choice([1, 1, 2]) + [s_["beh"]]
    if rng.random() < 0.35:
        spec["worker_flag"] = True  # the broker object is flagged as living in a worker process (what the CLI does)
    if spec["cfg"]["ack"] == "when_saved" and spec["loop_ackable"] and spec.get("via") != "inmemory" and rng.random() < 0.12:
        # acknowledging fails (the connection to the broker is gone): everything before the ack has happened
        spec["loop_ack_raise"] = True
    elif spec.get("via") != "inmemory" and "retry" not in spec and rng.random() < 0.1:
        # the worker stops with a short wait_tasks_timeout while a function still runs; the event loop is then closed,
        # which cancels that execution from outside: the function ended with CancelledError - a failing execution
        # (no concurrency limit: with every slot busy the unchanged worker does not honour the timeout - finding F6 of
        # C05; nothing else is in mid-flight when the loop is closed: hooks, store and sends take no time here)
        spec["cfg"]["W"] = 0.05
        spec["cfg"]["A"] = None
        spec["kick_lat"] = 0
        spec["backend"]["lat"] = 0
        for mw_ in spec["mws"] + spec["mws2"]:
            for hs_ in mw_.values():
                if isinstance(hs_, dict) and hs_.get("lat"):
                    hs_["lat"] = 0
        for s_ in sends:
            if s_["task"] == "t_async" and "labels" not in s_ and isinstance(s_["beh"], dict) and rng.random() < 0.5:
                s_["beh"]["dur"] = [20.0]
                s_["beh"].pop("cleanup", None)
    return spec


class C10(WorkerCheck):
    pid = "C10"
    rule = ("Scenario = stack of 0-3 generated TaskiqMiddleware subclasses each overriding a random subset of the "
            "six hooks (sync or async with latency, message-replacing or not), 1-6 concurrent real kiq() sends "
            "(kick failing on a random subset) looped back through the scripted broker into the real "
            "Receiver.listen(); outcomes {return, raise, no-result, backend failure}. Oracle per message: client "
            "sequence pre_send[registration order, each seeing predecessors' markers] . kick . post_send iff kick "
            "succeeded, failed kick => SendTaskError; worker sequence pre_execute* . task . on_error*? . "
            "post_execute* . (save . post_save*)? with each overridden hook exactly once in registration order. "
            "Further dimensions: retry middleware re-sends, Context.requeue() rounds, the worker-process flag, failing acks, "
            "executions cancelled from outside after listen() returned, parameters annotated with plain classes. "
            "Non-trivial: >=1 middleware with >=1 overridden hook and >=1 delivered message; distinct = distinct "
            "(kind, mw, delivery) sequences.")
    floors = {"counters.messages_checked": 2000, "events.kick_fail": 30, "events.mw:post_save": 100,
              "events.mw:on_error": 100}
    quick_cases = 3000
    thorough_cases = 50000

    def cases(self, rng: random.Random, tier: str, shard: int, nshards: int) -> Iterator[Any]:
        while True:
            yield gen_c10_spec(rng)

    def judge(self, rr: RunResult, spec: Dict[str, Any], cr: CaseResult) -> None:
        v, checked = O.oracle_c10(rr, spec)
        cr.violations += v
        cr.counters["messages_checked"] += checked
        if rr.outcome != "returned":
            cr.violations.append(Violation("worker-stalled", f"outcome {rr.outcome} {rr.err}"))

    def nontrivial(self, rr: RunResult, spec: Dict[str, Any]) -> bool:
        return any(m for m in spec["mws"]) and any(e["k"] == "cb_exit" for e in rr.trace)

    def run_case(self, spec: Dict[str, Any]) -> CaseResult:
        cr = super().run_case(spec)
        return cr


# ====================================================================================
# C12


def gen_c12_spec(rng: random.Random, depth: int) -> Dict[str, Any]:
    tasks: Dict[str, Any] = {}
    deps: Dict[str, Any] = {}
    d, roots = gen_dep_graph(rng, depth, True, [0, "y", 0.01, 0.05])
    deps.update(d)
    fn = rng.choice(["async", "async", "sync"])
    tasks["tdep"] = {"fn": fn, "deps": roots, "ctx": rng.random() < 0.5}
    fail_dep = None
    if rng.random() < 0.2:
        fail_dep = rng.choice(list(deps))
        deps[fail_dep]["raise_open"] = True
        if rng.random() < 0.5:
            deps[fail_dep]["raise_open_exc"] = rng.choice(["TimeoutError", "asyncio.TimeoutError", "ConnectionError", "KeyError"])
        if rng.random() < 0.5:
            # it fails for the first message(s) only - and it is the first thing the task needs (a gate in front of the
            # other dependencies: nothing has been opened when it fails)
            exc_ = deps[fail_dep].pop("raise_open_exc", None)
            deps[fail_dep].pop("raise_open")
            fail_dep = "dgate"
            deps["dgate"] = {"style": rng.choice(["plain_sync", "plain_async"]), "cache": True, "ctx": False, "subs": [],
                             "raise_open": True, "raise_open_toks": rng.choice([["m0"], ["m0", "m1"], ["m1"]])}
            if exc_:
                deps["dgate"]["raise_open_exc"] = exc_
            tasks["tdep"]["deps"] = ["dgate"] + list(tasks["tdep"]["deps"])
    n = rng.randint(1, 4)
    msgs = []
    t = 0.0
    for i in range(n):
        t += rng.choice([0, 0, 0.01, 0.05])
        beh = gen_beh(rng, ["ok", "raise", "raise", "noresult"], [[], ["y"], [0.05], [0.2]])
        if beh["out"].startswith("raise:") and rng.random() < 0.15:
            beh["out"] = "raise:LockedError"  # an exception object that cannot be pickled (it holds a lock)
        elif beh["out"].startswith("raise:") and rng.random() < 0.15:
            beh["out"] = "raise:Chained"  # raised with an explicit cause (raise X from Y)
        m: Dict[str, Any] = {"at": round(t, 6), "task": "tdep", "beh": beh, "ackable": rng.random() < 0.7,
                             "ack_async": rng.random() < 0.5}
        if fn == "sync":
            beh["dur"] = []
        elif rng.random() < 0.25:
            # a timeout label that does NOT fire (the task is faster), combined with slow teardowns
            m["timeout"] = rng.choice([0.25, 0.3, 1.0])
        elif rng.random() < 0.25:
            beh["dur"] = [rng.choice([0.5, "never"])]
            m["timeout"] = 0.1
            if rng.random() < 0.5:
                beh["cleanup"] = rng.choice([["y"], [0.05], [0.2]])
        elif rng.random() < 0.08:
            # a timeout label that is not a number: the execution fails after the dependencies were opened and
            # before the function is started; the function must not run later, against closed dependencies
            m["timeout_raw"] = rng.choice(["10s", "", "1,5"])
            beh["dur"] = [rng.choice([0.05, 0.3])]
        msgs.append(m)
    if fn != "sync" and rng.random() < 0.25:
        add_same_id_messages(rng, msgs, 0.5)  # re-deliveries: concurrent executions that share a task id
    spec: Dict[str, Any] = {
        "cfg": {"A": rng.choice([1, 2, 4, None]), "P": 0, "propagate": rng.random() < 0.6,
                "ack": rng.choice(["when_executed", "when_saved", "when_saved", "when_received"])},
        "tasks": tasks, "deps": deps, "msgs": msgs, "end_stream": True,
        "backend": {"lat": rng.choice([0, 0.01])},
        "mws": [{"post_execute": {"async": False}, "on_error": {"async": False}}] if rng.random() < 0.7 else [],
    }
    if rng.random() < 0.12:
        spec["via"] = "inmemory"
        spec["cfg"]["ack"] = "when_saved"
    elif fn != "sync" and rng.random() < 0.15:
        # a graceful stop with a short wait_tasks_timeout: executions that need longer are left running when listen()
        # returns - their dependencies stay open for as long as their function runs
        spec["cfg"]["W"] = rng.choice([0.05, 0.3])
        spec["end_stream"] = False
        spec["stop_at"] = round(max(m_["at"] for m_ in msgs) + rng.choice([0.01, 0.1]), 6)
        for m_ in msgs:
            if m_.get("timeout") is None and m_.get("timeout_raw") is None and rng.random() < 0.7:
                m_["beh"]["dur"] = [rng.choice([1.0, 2.5])]
    spec["horizon"] = est_horizon(spec) + 5 * len(deps)
    return spec


class C12(WorkerCheck):
    pid = "C12"
    wiring_fields = ["propagate_exceptions"]
    rule = ("Scenario = generated task with a random dependency DAG up to depth 3 mixing generator, async "
            "generator, @contextmanager, @asynccontextmanager and plain dependencies (cached and use_cache=False, "
            "shared nodes), outcomes {return, raise, timeout, no-result, dependency raising during resolution}, "
            "propagate_exceptions on/off, 1-4 concurrent executions, ack types. Oracle per execution: every "
            "opened yielding dependency closed exactly once; close order = reverse open order; all closes after "
            "task end / failing dependency and before on_error/post_execute, set_result and any post-execution "
            "ack; exception seen by the dependency iff (failed and propagate). Non-trivial: >=2 yielding "
            "dependencies opened in one execution; distinct = distinct (kind, dep, delivery) sequences.")
    floors = {"counters.cli_command_lines": 30, "counters.api_receivers_built": 30, "counters.executions_checked": 800, "events.dep_close": 2000, "counters.uncached_graphs": 100}
    quick_cases = 2500
    thorough_cases = 40000
    assumptions = ["taskiq_dependencies 1.5.7 as installed in /venv is part of the system under observation"]

    def cases(self, rng: random.Random, tier: str, shard: int, nshards: int) -> Iterator[Any]:
        while True:
            yield gen_c12_spec(rng, 2 if tier == "quick" and rng.random() < 0.5 else 3)

    def judge(self, rr: RunResult, spec: Dict[str, Any], cr: CaseResult) -> None:
        v, checked = O.oracle_c12(rr, spec)
        cr.violations += v
        cr.counters["executions_checked"] += checked
        if any(not nd.get("cache", True) for nd in spec["deps"].values()):
            cr.counters["uncached_graphs"] += 1
        if rr.outcome not in ("returned",):
            cr.violations.append(Violation("worker-stalled", f"outcome {rr.outcome} {rr.err}"))

    def nontrivial(self, rr: RunResult, spec: Dict[str, Any]) -> bool:
        per: Dict[Any, int] = {}
        for e in rr.trace:
            if e["k"] == "dep_close":
                per[e["m"]] = per.get(e["m"], 0) + 1
        return any(n >= 2 for n in per.values())
