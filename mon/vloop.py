"""Virtual-time asyncio event loop.

A SelectorEventLoop whose clock is virtual: whenever asyncio would block in
``select(timeout)`` the clock is advanced by ``timeout`` instead (after a
zero-timeout poll of real I/O).  While executor futures are in flight (sync task
functions running in a thread) the loop waits for *real* wake-ups on its self-pipe and
keeps the virtual clock frozen, so thread work costs zero virtual time.

The ready queue is never reordered: FIFO ``call_soon`` order is preserved.
"""
from __future__ import annotations

import asyncio
import selectors
import time as _time
from typing import Any, Optional


class VirtualDeadlock(Exception):
    """Loop would block forever: no timer, no ready callback, no I/O, no thread."""


class StepBudgetExceeded(Exception):
    """Loop iterations exceeded the budget (busy loop or runaway scenario)."""


class WallWatchdog(Exception):
    """A real (wall-clock) wait exceeded its bound -> inconclusive, not a violation."""


class _VSelector:
    def __init__(self, loop_ref: "list[Any]") -> None:
        self._real = selectors.DefaultSelector()
        self._loop_ref = loop_ref

    # delegation -----------------------------------------------------------------
    def register(self, *a: Any, **k: Any) -> Any:
        return self._real.register(*a, **k)

    def unregister(self, *a: Any, **k: Any) -> Any:
        return self._real.unregister(*a, **k)

    def modify(self, *a: Any, **k: Any) -> Any:
        return self._real.modify(*a, **k)

    def get_key(self, *a: Any, **k: Any) -> Any:
        return self._real.get_key(*a, **k)

    def get_map(self) -> Any:
        return self._real.get_map()

    def close(self) -> None:
        self._real.close()

    # the virtual part -----------------------------------------------------------
    def select(self, timeout: Optional[float] = None) -> Any:
        loop = self._loop_ref[0]
        loop._v_steps += 1
        if loop._v_steps > loop._v_step_budget:
            raise StepBudgetExceeded(loop._v_steps)
        events = self._real.select(0)
        if events:
            return events
        if timeout is not None and timeout <= 0:
            return events
        if loop._v_inflight > 0:
            # A thread is working: wait for its real wake-up, clock frozen.
            t0 = _time.monotonic()
            events = self._real.select(loop._v_real_wait)
            loop._v_real_waited += _time.monotonic() - t0
            if not events and loop._v_real_waited > loop._v_real_wait_total:
                raise WallWatchdog("executor work did not finish in time")
            return events
        if timeout is None:
            raise VirtualDeadlock(f"deadlock at vt={loop._v_now!r}")
        target = loop._v_now + timeout
        sched = loop._scheduled
        if sched:
            when = sched[0]._when
            # land exactly on the timer instant (no float drift from repeated addition)
            if abs(when - target) < 1e-9 and when >= loop._v_now:
                target = when
        loop._v_now = target
        loop._v_advances += 1
        return events


class VirtualLoop(asyncio.SelectorEventLoop):
    def __init__(self, step_budget: int = 2_000_000) -> None:
        ref: "list[Any]" = [None]
        self._v_now = 0.0
        self._v_steps = 0
        self._v_advances = 0
        self._v_step_budget = step_budget
        self._v_inflight = 0
        self._v_real_wait = 0.5
        self._v_real_waited = 0.0
        self._v_real_wait_total = 60.0
        sel = _VSelector(ref)
        super().__init__(sel)  # type: ignore[arg-type]
        ref[0] = self

    def time(self) -> float:  # noqa: D102
        return self._v_now

    def run_in_executor(self, executor: Any, func: Any, *args: Any) -> Any:  # noqa: D102
        fut = super().run_in_executor(executor, func, *args)
        self._v_inflight += 1

        def _done(_f: Any) -> None:
            self._v_inflight -= 1

        fut.add_done_callback(_done)
        return fut


def run_virtual(coro_factory: Any, step_budget: int = 2_000_000) -> Any:
    """Run ``coro_factory(loop)`` to completion on a fresh virtual loop.

    Returns (result, loop).  Exceptions VirtualDeadlock / StepBudgetExceeded /
    WallWatchdog propagate to the caller.
    """
    loop = VirtualLoop(step_budget=step_budget)
    asyncio.set_event_loop(loop)
    try:
        res = loop.run_until_complete(coro_factory(loop))
        return res, loop
    finally:
        try:
            _cancel_all(loop)
        except BaseException:  # noqa: BLE001
            pass
        asyncio.set_event_loop(None)
        loop.close()


def _cancel_all(loop: asyncio.AbstractEventLoop) -> None:
    pending = [t for t in asyncio.all_tasks(loop) if not t.done()]
    if not pending:
        return
    for t in pending:
        t.cancel()
    # give them bounded opportunity to finish; ignore their outcome
    try:
        loop._v_step_budget = loop._v_steps + 20000  # type: ignore[attr-defined]
        loop.run_until_complete(asyncio.wait(pending, timeout=5))
    except BaseException:  # noqa: BLE001
        pass
    try:
        loop.run_until_complete(loop.shutdown_asyncgens())
    except BaseException:  # noqa: BLE001
        pass
