"""C11: SimpleRetryMiddleware bounds, through a real encode/decode cycle per attempt."""
from __future__ import annotations

import random
from collections import defaultdict
from typing import Any, Dict, Iterator, List

from mon import worker_oracles as O
from mon.runner import CaseResult, Check, Violation, jhash
from mon.worker_checks import compact, base_result
from mon.worker_harness import run_worker, safe_json

FAILS = ["raise:ValueError", "raise:KeyError", "raise:CustomError", "raise:CustomBase", "raise:KeyboardInterrupt",
         "raise:SystemExit", "raise:TimeoutError", "raise:CancelledError", "raise:TaskRejectedError", "raise:FalsyError",
         "raise:BadStrError", "raise:EmptyLenError"]
EXTRA_LABELS: List[Dict[str, Any]] = [
    {}, {"u": 1}, {"s": "txt", "f": 2.5}, {"b": True, "z": False}, {"by": b"\x00\xff", "n": -3},
    {"big": 2 ** 80, "e": ""}, {"uni": "ü∆", "fl": -0.0},
    {"timeout": 50}, {"timeout": 75.5, "u": 2}, {"timeout": "60"},  # labels the worker itself reads are user labels too
    {"_tenant": "acme", "region": "eu"}, {"__trace": "t1", "X-Taskiq-origin": "edge", "_n": 7},  # names that look private
]


def gen_c11_spec(rng: random.Random) -> Dict[str, Any]:
    ntok = rng.choice([1, 1, 1, 2, 3])
    default_count = rng.randint(0, 6)
    default_label = rng.random() < 0.5
    nro = rng.random() < 0.5
    sends = []
    meta = {}
    empty_id = rng.random() < 0.06
    for i in range(ntok):
        tok = f"r{i}"
        L = rng.randint(1, 7)
        outs = []
        for _ in range(L):
            r = rng.random()
            outs.append(rng.choice(FAILS) if r < 0.7 else ("ok" if r < 0.9 else "noresult"))
        if rng.random() < 0.3:
            outs = [rng.choice(FAILS)] * L  # always failing
        beh = [{"dur": list(rng.choice([[], ["y"], [0.01], [0.1]])), "out": o, "value": k} for k, o in enumerate(outs)]
        for b in beh:
            if b["out"] == "noresult" and rng.random() < 0.4:
                b["noresult_sub"] = True  # signalled with a subclass of NoResultError: still "no result", never a failure
        labels: Dict[str, Any] = dict(rng.choice(EXTRA_LABELS))
        mr_kind = rng.choice(["int", "str", "absent"])
        mr = rng.randint(0, 6)
        if mr_kind == "int":
            labels["max_retries"] = mr
        elif mr_kind == "str":
            labels["max_retries"] = str(mr)
        ro_kind = rng.choice(["True", "False", "sTrue", "strue", "sTRUE", "sFalse", "sfalse", "absent", "absent"])
        if ro_kind == "True":
            labels["retry_on_error"] = True
        elif ro_kind == "False":
            labels["retry_on_error"] = False
        elif ro_kind.startswith("s"):
            labels["retry_on_error"] = ro_kind[1:]
        task = rng.choice(["t_async", "t_async", "t_sync"])
        if task == "t_sync":
            for b in beh:
                b["dur"] = []
                if b["out"] == "raise:CancelledError":
                    b["out"] = "raise:ValueError"
        snd: Dict[str, Any] = {"tok": tok, "task": task, "beh": beh, "labels": labels, "at": rng.choice([0, 0, 0.01]),
                               "via_with_labels": rng.random() < 0.4}
        if task == "t_async" and rng.random() < 0.2:
            # a parameter typed as a model with a generated field the sender left out: the value the first attempt
            # saw is part of the arguments every further attempt must get
            snd["task"] = "t_model"
            snd["kwargs"] = {"req": {"name": rng.choice(["a", "b"])}}
            if rng.random() < 0.5:
                snd["kwargs"]["req"].update({"at": "2024-05-01T10:00:00", "amount": "12.50", "uid": "12345678-1234-5678-1234-567812345678"})
        sends.append(snd)
        meta[tok] = {"mr_kind": mr_kind, "mr": mr, "ro_kind": ro_kind}
    mws = [{"pre_execute": {"async": rng.random() < 0.5, "lat": rng.choice([0, "y"])}}]
    spec: Dict[str, Any] = {
        # (propagate_exceptions only says whether dependencies see the exception; retries do not depend on it)
        "cfg": {"A": rng.choice([1, 2, None]), "P": rng.choice([0, 1]), "propagate": rng.random() < 0.75},
        "client_sends": sends, "loopback": True, "msgs": [], "mws": mws,
        "retry": {"default_count": default_count, "default_label": default_label, "no_result_on_retry": nro,
                  "pos": rng.choice([0, 1]), "subclass": rng.random() < 0.3, "positional": rng.random() < 0.3},
        "backend": {"lat": rng.choice([0, "y", 0.01]), "stock": rng.random() < 0.4},
        # the broker hands out acknowledgeable messages (an at-least-once broker re-delivers what is never acked)
        "loop_ackable": rng.random() < 0.5,
        "stop_at": 30.0, "horizon": 60.0, "_meta": meta,
    }
    if rng.random() < 0.25:
        # the task declares labels of its own (decorator); an invocation sent with other values keeps *its* values on
        # every re-send
        spec["tasks"] = {"t_decl": {"fn": "async", "labels": {"max_retries": rng.choice([0, 5]), "team": "core", "retry_on_error": rng.random() < 0.5}}}
        for s_ in sends:
            if s_["task"] == "t_async" and rng.random() < 0.7:
                s_["task"] = "t_decl"
                if rng.random() < 0.5:
                    s_["labels"]["team"] = "billing"
    if rng.random() < 0.2:
        # the retried task has a generator dependency whose teardown takes time (a rollback on the error path)
        spec["deps"] = {"dr": {"style": rng.choice(["agen", "acm"]), "td_lat": rng.choice([0.05, 0.3]), "td_err_only": rng.random() < 0.7, "subs": [], "cache": True, "ctx": False}}
        spec.setdefault("tasks", {})["t_rdep"] = {"fn": "async", "deps": ["dr"]}
        for s_ in sends:
            if s_["task"] == "t_async" and rng.random() < 0.7:
                s_["task"] = "t_rdep"
                for b in s_["beh"]:
                    b["dur"] = []  # (attempts that take no time of their own: the teardown is what takes time)
        if rng.random() < 0.6:
            spec["retry"]["no_result_on_retry"] = False
            spec["backend"]["lat"] = 0
    if rng.random() < 0.15:
        # sends whose confirmation gets lost: the broker has the message, the sender is told the send failed.  Whatever
        # the sender makes of that, the message is on its way once
        spec["kick_lost"] = sorted(rng.sample(range(10), rng.randint(1, 3)))
        spec["kick_lost_exc"] = rng.choice(["ConnectionError", "TimeoutError", "ConnectionResetError"])
    if rng.random() < 0.2 and "kick_lost" not in spec:
        # the same through the bundled InMemoryBroker (kick() starts the execution itself) and its result backend;
        # nothing here takes time, so attempts cannot overtake each other
        spec["via"] = "inmemory"
        spec["inplace"] = rng.random() < 0.3  # InMemoryBroker(await_inplace=True): kiq() returns after the execution
        spec["backend"] = {"lat": 0, "stock": True}
        spec["mws"] = [{"pre_execute": {"async": False, "lat": 0}}]
        spec.pop("loop_ackable", None)
        for s_ in sends:
            s_["at"] = 0
            for b in s_["beh"]:
                if rng.random() < 0.7:
                    b["dur"] = []
    elif rng.random() < 0.12:
        # the retry middleware is added while the worker is running, after it has already handled a failing task
        spec["retry"]["late"] = True
        spec["cfg"].update({"A": 1, "P": 0})  # (one message at a time: "prime" is handled before the others start)
        for s_ in sends:
            s_["at"] = 1.0 + s_["at"]
        sends.insert(0, {"tok": "prime", "task": "t_async", "beh": [{"dur": [], "out": "raise:ValueError", "value": 0}], "labels": {},
                         "at": 0, "primer": True})
        meta["prime"] = {"mr_kind": "absent", "mr": 0, "ro_kind": "absent"}
    elif rng.random() < 0.1 and not spec["backend"].get("stock") and sends[0]["task"] != "t_model":
        # a caller-chosen id (an idempotency key) used for a second call of the task once the first call is through
        first_ = sends[0]
        first_["repeated"] = True
        first_["beh"] = first_["beh"] + [dict(b) for b in first_["beh"]]
        sends.append(dict(first_, late=True, at=12.0, repeat_of=first_["tok"], repeated=False))
    elif empty_id:
        # a task id that happens to be falsy (the caller chose it): an id like any other
        sends[0]["tok"] = ""
        meta[""] = meta.pop("r0")
    return spec


def model(spec: Dict[str, Any], send: Dict[str, Any]) -> Dict[str, Any]:
    """Reference model: expected executions and stored results for one token."""
    r = spec["retry"]
    if send.get("primer"):
        return {"execs": 1, "stored": ["err"]}  # handled before the retry middleware was there
    labels = send["labels"]
    ro = labels.get("retry_on_error")
    if isinstance(ro, str):
        ro = ro.lower() == "true"
    if ro is None:
        ro = r["default_label"]
    mx = int(labels["max_retries"]) if "max_retries" in labels else r["default_count"]
    beh = send["beh"]
    execs = 0
    stored: List[str] = []  # 'err' / 'ok' per set_result call, in order
    i = 0
    while True:
        o = beh[min(i, len(beh) - 1)]["out"]
        execs += 1
        if o == "ok":
            stored.append("ok")
            break
        if o == "noresult":
            break
        resend = bool(ro) and (i + 1) < mx
        if resend:
            if not r["no_result_on_retry"]:
                stored.append("err")
            i += 1
            if i > 50:
                break
            continue
        stored.append("err")
        break
    return {"execs": execs, "stored": stored}


def oracle_c11(rr: Any, spec: Dict[str, Any]) -> "tuple[List[Violation], int]":
    v: List[Violation] = []
    tr = rr.trace
    checked = 0
    bytok: Dict[str, Dict[str, List[Any]]] = defaultdict(lambda: defaultdict(list))
    tok_of = {i["d"]: i["tok"] for i in rr.sc.deliveries}
    for e in tr:
        if e["k"] == "task_start":
            bytok[e["tok"]]["start"].append(e)
        elif e["k"] == "set_enter":
            bytok[tok_of.get(e["m"])]["set"].append(e)
        elif e["k"] == "kick":
            bytok[e["task_id"]]["kick"].append(e)
        elif e["k"] == "mw:pre_execute":
            bytok[e["tok"]]["pre"].append(e)
    kicked = defaultdict(list)
    for bm in rr.sc.kicked:
        kicked[bm.task_id].append(bm)
    lost = {e["task_id"] for e in tr if e["k"] == "kick_lost"}
    for send in spec["client_sends"]:
        tok = send["tok"]
        if send.get("repeat_of"):
            continue  # judged together with the first call that used this id
        want = model(spec, send)
        if send.get("repeated"):
            # the same id is used for a second call after the first one was through: its executions go on in the
            # behaviour list where the first call stopped, with retry counting of their own
            rest = send["beh"][want["execs"]:] or send["beh"][-1:]
            want2 = model(spec, dict(send, beh=rest))
            want = {"execs": want["execs"] + want2["execs"], "stored": want["stored"] + want2["stored"], "calls": 2}
        got = bytok[tok]
        checked += 1
        n = len(got["start"])
        if n > want["execs"]:
            v.append(Violation("too-many-executions", f"{tok}: executed {n} times, bound {want['execs']} (labels {safe_json(send['labels'])}, retry cfg {spec['retry']})"))
        elif n < want["execs"]:
            v.append(Violation("too-few-executions", f"{tok}: executed {n} times, expected {want['execs']} (labels {safe_json(send['labels'])}, retry cfg {spec['retry']})"))
        if len(got["kick"]) != max(n, want.get("calls", 1)):
            v.append(Violation("kick-count", f"{tok}: {len(got['kick'])} sends for {n} executions"))
        stored = ["err" if e["is_err"] else "ok" for e in got["set"]]
        if tok in lost:
            # a send of this message "failed" after the broker had taken it: the attempt that sent it ends there (what
            # it stores is not modelled); the number of executions and of sends is what it is without the fault
            continue
        inplace_known = False
        nested = bool(spec.get("inplace")) and spec.get("via") == "inmemory" and not spec["retry"]["no_result_on_retry"]
        if nested and n == want["execs"] and len(want["stored"]) > 1:
            # recorded finding F15, in-place variant: with InMemoryBroker(await_inplace=True) the re-sent attempt
            # runs to its end *inside* the failing attempt's on_error hook (kiq() awaits the execution), i.e.
            # before the failing attempt's own result is saved: the saves happen innermost-first and the first
            # attempt's error is written last.  Anything other than the exact reverse order is not covered.
            if stored == list(reversed(want["stored"])):
                v.append(Violation("final-result-overwritten-by-outer-attempt-inplace", f"{tok}: results were saved in the order {stored} "
                                   f"(the model says {want['stored']}): the in-memory backend ends up with the first attempt's error"))
                inplace_known = True
        if stored != want["stored"] and n == want["execs"] and not inplace_known:
            v.append(Violation("stored-results", f"{tok}: stored {stored}, expected {want['stored']} (no_result_on_retry={spec['retry']['no_result_on_retry']})"))
        stock = getattr(rr.sc, "stock_backend", None)
        if stock is not None and n == want["execs"] and want["stored"] and not inplace_known:
            # what a client reads back from the bundled InmemoryResultBackend is the final attempt's outcome
            final = stock.results.get(tok)
            last = [r for dd, tid, r in rr.sc.saved if tid == tok]
            if final is None or not last or final is not last[-1]:
                kind = "final-result-not-stored"
                # mechanism (recorded finding F15): the retry is sent from on_error *before* the failed
                # attempt's result is saved, so the saves of two attempts of one task id can overlap and the
                # earlier attempt's save may complete last (slow / reordering backend), overwriting the final one
                # (it needs something that takes time between the re-send and the save: a backend with latency)
                if final is not None and last and not spec["retry"]["no_result_on_retry"] and spec.get("backend", {}).get("lat"):
                    exits = {}
                    for e in tr:
                        if e["k"] == "set_exit":
                            exits[e["m"]] = e["i"]
                    d_final = [dd for dd, tid, r in rr.sc.saved if tid == tok][-1]
                    d_kept = [dd for dd, tid, r in rr.sc.saved if tid == tok and r is final]
                    if d_kept and d_kept[0] != d_final and exits.get(d_kept[0], -1) > exits.get(d_final, 10 ** 12) - 0:
                        kind = "final-result-overtaken-by-earlier-attempt"
                v.append(Violation(kind, f"{tok}: the in-memory result backend holds {None if final is None else ('err' if final.is_err else 'ok')} "
                                   f"(value {getattr(final, 'return_value', None)!r}, error {getattr(final, 'error', None)!r}), not the result of the final attempt ({want['stored']})"))
        # every attempt: same args/kwargs/user labels
        user = dict(send["labels"])
        user["own"] = tok
        for e in got["pre"]:
            lab = {k: x for k, x in e["labels"].items() if k != "_retries"}
            if lab != safe_json(user):
                v.append(Violation("labels-changed-on-retry", f"{tok}: attempt saw labels {lab}, sent {safe_json(user)}"))
                break
        for k, e in enumerate(got["start"]):
            if send.get("task") == "t_model":
                first_ = got["start"][0]
                if e["args"] != first_["args"] or e["kwargs"] != first_["kwargs"] or "key-" not in str(e["kwargs"].get("req")):
                    v.append(Violation("args-changed-on-retry", f"{tok}: attempt {k} received kwargs {e['kwargs']}, attempt 0 had {first_['kwargs']}"))
                    break
            elif e["args"] != [] or e["kwargs"] != {}:
                v.append(Violation("args-changed-on-retry", f"{tok}: attempt {k} received args {e['args']} kwargs {e['kwargs']}"))
                break
        retries_seen = [e["labels"].get("_retries") for e in got["pre"]]
        want_r = [None] + list(range(1, len(retries_seen)))
        if send.get("repeated"):
            k1 = model(spec, send)["execs"]
            want_r = ([None] + list(range(1, k1))) + ([None] + list(range(1, len(retries_seen) - k1)) if len(retries_seen) > k1 else [])
        if retries_seen != want_r:
            v.append(Violation("retry-counter", f"{tok}: _retries labels seen {retries_seen}, expected {want_r}"))
        for bm in kicked[tok]:
            if bm.task_id != tok:
                v.append(Violation("task-id-changed", f"{tok}: re-sent as {bm.task_id}"))
    for i in rr.sc.deliveries:
        if not i.get("ackable"):
            continue
        evs = [e for e in tr if e["m"] == i["d"]]
        ks = {e["k"] for e in evs}
        if "cb_exit" in ks and "cb_raise" not in ks and "task_start" in ks and "ack" not in ks:
            v.append(Violation("attempt-never-acknowledged", f"{i['tok']}: delivery {i['d']} was executed and processed to the end but never acknowledged; "
                               "an at-least-once broker delivers it again, beyond max_retries"))
            break
    if rr.outcome != "returned":
        v.append(Violation("worker-stalled", f"outcome {rr.outcome} {rr.err}"))
    return v, checked


class C11(Check):
    pid = "C11"
    rule = ("Scenario = 1-3 concurrent tokens sent with the real kiq() through SimpleRetryMiddleware, scripted "
            "broker loops every kick back into the real Receiver.listen() (encode -> wire -> decode per attempt); "
            "per-attempt outcome sequences over {fail (Exception and BaseException kinds), ok, no-result} of length "
            "<=7, max_retries 0..6 as int label / str label / middleware default, retry_on_error as bool label / "
            "'True','true','TRUE','False','false' strings / default, both no_result_on_retry settings, sync and "
            "async un-annotated task functions, typed extra labels. Oracle = 15-line reference model: executions == "
            "min(first non-fail position, max(1,max_retries)) (1 if disabled), one kick per execution, same task "
            "id/args/kwargs/user labels and _retries = 1,2,.. on re-sends, stored results sequence per model. "
            "Non-trivial: >=1 retry happened; distinct = distinct (kind, delivery) sequences.")
    floors = {"counters.tokens_checked": 1500, "counters.retries_observed": 800, "events.kick": 2000}
    quick_cases = 4000
    thorough_cases = 80000

    def cases(self, rng: random.Random, tier: str, shard: int, nshards: int) -> Iterator[Any]:
        while True:
            yield gen_c11_spec(rng)

    def run_case(self, spec: Dict[str, Any]) -> CaseResult:
        cr = CaseResult()
        rr = run_worker(spec)
        base_result(rr, cr)
        v, checked = oracle_c11(rr, spec)
        cr.violations += v
        cr.counters["tokens_checked"] += checked
        nk = sum(1 for e in rr.trace if e["k"] == "kick")
        retries = nk - len(spec["client_sends"])
        cr.counters["retries_observed"] += max(0, retries)
        for m in spec["_meta"].values():
            cr.counters["max_retries_as_" + m["mr_kind"]] += 1
        cr.nontrivial = retries > 0
        cr.sig = jhash(O.signature(rr.trace))
        cr.trace = compact(rr.trace)
        return cr

    def selftest(self) -> List[str]:
        spec = {"retry": {"default_count": 3, "default_label": False, "no_result_on_retry": True}}
        send = {"labels": {"retry_on_error": "True", "max_retries": "2"}, "beh": [{"out": "raise:ValueError"}]}
        m = model(spec, send)
        if m != {"execs": 2, "stored": ["err"]}:
            return [f"C11 model wrong: {m}"]
        send = {"labels": {"retry_on_error": True, "max_retries": 0}, "beh": [{"out": "raise:ValueError"}]}
        if model(spec, send)["execs"] != 1:
            return ["C11 model wrong for max_retries=0"]
        return []
