"""Real-process run of the ProcessManager (driven by a history), meant to run under strace.

usage: pm_real.py <repo> <workers> <max_fails> <history-json> <log-file>
The manager's `sleep` is replaced by a driver tick that kills real worker processes / signals the
manager itself / schedules a reload, then really sleeps a little.  Everything else is real:
multiprocessing.Process, Queue, Event, os.kill, signal handlers.
"""
import json
import os
import signal
import sys
import time

repo, workers, max_fails, hist, logf = sys.argv[1], int(sys.argv[2]), int(sys.argv[3]), json.loads(sys.argv[4]), sys.argv[5]
sys.path.insert(0, repo)
import logging  # noqa: E402

logging.disable(logging.CRITICAL)
import taskiq.cli.worker.process_manager as pm  # noqa: E402
from taskiq.cli.worker.args import WorkerArgs  # noqa: E402

LOG = open(logf, "w")


def log(*a):
    LOG.write(json.dumps(a) + "\n")
    LOG.flush()


def worker_fn(args):
    try:
        time.sleep(600)
    except KeyboardInterrupt:
        pass


def is_dead(pid):
    try:
        with open(f"/proc/{pid}/stat") as f:
            return f.read().split(") ")[1][0] in "ZX"
    except OSError:
        return True


tick = [0]


def driver_sleep(_secs):
    if tick[0] >= len(hist):
        log("end_of_history", [w.pid for w in mgr.workers])
        # leave like a shutdown would, so that no worker stays behind
        for w in mgr.workers:
            try:
                os.kill(w.pid, signal.SIGKILL)
            except OSError:
                pass
        LOG.close()
        os._exit(70)
    entry = hist[tick[0]]
    die, sig, fchange = entry[0], entry[1], entry[2]
    # events to deliver while the manager handles this tick: right after it found its action queue drained
    # (i.e. between processing the queue and the health check)
    pending_mid[:] = [m for m in (entry[3] if len(entry) > 3 else []) if m[0] == "drained"]
    tick[0] += 1
    log("tick", tick[0], [w.pid for w in mgr.workers])
    for slot in die:
        pid = mgr.workers[slot].pid
        log("driver_kill", slot, pid)
        try:
            os.kill(pid, signal.SIGKILL)
        except OSError:
            pass
        t0 = time.time()
        while not is_dead(pid) and time.time() - t0 < 3:
            time.sleep(0.005)
    if fchange:
        pm.schedule_workers_reload(mgr.action_queue)
    if sig:
        log("driver_signal", sig)
        os.kill(os.getpid(), {"HUP": signal.SIGHUP, "INT": signal.SIGINT, "TERM": signal.SIGTERM}[sig])
    time.sleep(0.06)  # let the queue feeder thread flush


pending_mid = []
pm.sleep = driver_sleep
args = WorkerArgs(broker="b:b", modules=[], workers=workers, max_fails=max_fails)
mgr = pm.ProcessManager(args, worker_function=worker_fn)
_orig_empty = mgr.action_queue.empty


def _empty():
    r = _orig_empty()
    if r and pending_mid:
        evs, pending_mid[:] = list(pending_mid), []
        for _, kind, arg in evs:
            if kind == "die":
                pid = mgr.workers[arg].pid
                log("driver_kill", arg, pid)
                try:
                    os.kill(pid, signal.SIGKILL)
                except OSError:
                    pass
                t0 = time.time()
                while not is_dead(pid) and time.time() - t0 < 3:
                    time.sleep(0.005)
            elif kind == "sig":
                log("driver_signal_mid", arg)
                os.kill(os.getpid(), {"HUP": signal.SIGHUP, "INT": signal.SIGINT, "TERM": signal.SIGTERM}[arg])
    return r


mgr.action_queue.empty = _empty
try:
    ret = mgr.start()
except BaseException as exc:  # noqa: BLE001
    log("crash", repr(exc), [w.pid for w in mgr.workers])
    LOG.close()
    time.sleep(0.2)
    left = [w.pid for w in mgr.workers if not is_dead(w.pid)]
    for w in mgr.workers:
        try:
            os.kill(w.pid, signal.SIGKILL)
        except OSError:
            pass
    os._exit(4)
log("return", ret, [w.pid for w in mgr.workers])
LOG.close()
# children of a real deployment are interrupted by the manager; give them a moment, then make sure
time.sleep(0.2)
for w in mgr.workers:
    try:
        os.kill(w.pid, signal.SIGKILL)
    except OSError:
        pass
os._exit(0 if ret is None else 3)
