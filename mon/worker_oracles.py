"""Offline, deterministic oracles over worker traces (C01-C07, C10, C12)."""
from __future__ import annotations

from collections import Counter, defaultdict
from typing import Any, Dict, List, Optional

from mon.runner import Violation

SLACK = 2.0  # virtual seconds of promptness slack (the code polls every 0.3 s; a refactor to 1 s must not alarm)


def by_delivery(trace: List[Dict[str, Any]]) -> Dict[Any, List[Dict[str, Any]]]:
    out: Dict[Any, List[Dict[str, Any]]] = defaultdict(list)
    for e in trace:
        out[e["m"]].append(e)
    return out


def first(evs: List[Dict[str, Any]], kind: str) -> Optional[Dict[str, Any]]:
    for e in evs:
        if e["k"] == kind:
            return e
    return None


def count(evs: List[Dict[str, Any]], kind: str) -> int:
    return sum(1 for e in evs if e["k"] == kind)


def signature(trace: List[Dict[str, Any]]) -> List[Any]:
    return [(e["k"], e["m"]) for e in trace]


def valid_deliveries(trace: List[Dict[str, Any]]) -> Dict[int, Dict[str, Any]]:
    return {e["m"]: e for e in trace if e["k"] == "yield"}


# -------------------------------------------------------------------------------- C01


def oracle_c01(rr: Any, spec: Dict[str, Any]) -> List[Violation]:
    tr = rr.trace
    v: List[Violation] = []
    if rr.outcome == "raised":
        v.append(Violation("listen-raised", f"listen() raised {rr.err}"))
    if rr.outcome == "deadlock":
        v.append(Violation("deadlock", "worker deadlocked (no timer, no ready callback)"))
    yields = valid_deliveries(tr)
    starts = Counter(e["m"] for e in tr if e["k"] == "task_start")
    # the function is invoked with the keyword arguments of its own message (and nobody else's)
    sent_kw = {(m.get("tok") or f"m{i}"): m.get("kwargs", {}) for i, m in enumerate(spec.get("msgs", []))}
    for e in tr:
        if e["k"] == "task_start" and e.get("tok") in sent_kw and "opt" in str(sent_kw.values()):
            want_opt = sent_kw[e["tok"]].get("opt")
            got_opt = (e.get("kwargs") or {}).get("opt")
            if got_opt != want_opt:
                v.append(Violation("kwargs-of-another-message", f"delivery {e['m']} ({e['tok']}) was invoked with opt={got_opt!r}, its message carries opt={want_opt!r}"))
                break
    nyield = 0
    order = [e["m"] for e in tr if e["k"] == "yield"]
    N = spec.get("cfg", {}).get("N")
    # tasks registered while the worker runs: a message naming one is known iff its processing began after the
    # registration
    late = {nm for nm, ts in (spec.get("tasks") or {}).items() if ts.get("late_at") is not None}
    reg_i: Dict[str, int] = {}
    for e in tr:
        if e["k"] == "register":
            reg_i.setdefault(e["task"], e["i"])  # (the first registration: a name may be registered again later)
    cb_i = {}
    for e in tr:
        if e["k"] == "cb_enter":
            cb_i.setdefault(e["m"], e["i"])
    info = {i["d"]: i for i in rr.sc.deliveries} if getattr(rr, "sc", None) is not None else {}
    for e in tr:
        if e["k"] == "foreign_call":
            v.append(Violation("wrong-function-invoked", f"delivery {e['m']}: a shared task's function ran for a message naming the worker's own task {e.get('task')!r}"))
    for d, y in yields.items():
        nyield += 1
        n = starts.get(d, 0)
        tname = info.get(d, {}).get("task")
        if y["mk"] == "valid" and tname in late:
            known = tname in reg_i and d in cb_i and cb_i[d] > reg_i[tname]
            if not known:
                if n and (tname not in reg_i):
                    v.append(Violation("invalid-executed", f"delivery {d} for the not yet registered task {tname} led to an execution"))
                continue
        if y["mk"] == "valid":
            if n == 0:
                if rr.outcome in ("returned", "horizon", "deadlock", "raised") or \
                        (rr.outcome == "api-horizon" and y["t"] < spec.get("horizon", 0) - 5):
                    pos = order.index(d) + 1
                    kind = "message-dropped"
                    if N and pos == N + 1 and rr.outcome == "returned":
                        kind = "dropped-after-max-tasks"
                    v.append(Violation(kind, f"delivery {d} ({y['tok']}) taken (yield #{pos}) but never executed; outcome={rr.outcome}"))
            elif n > 1:
                v.append(Violation("executed-twice", f"delivery {d} executed {n} times"))
        elif n:
            v.append(Violation("invalid-executed", f"{y['mk']} delivery {d} led to an execution"))
    for d in starts:
        if d not in yields:
            v.append(Violation("phantom-execution", f"execution attributed to {d!r} which was never yielded"))
    return v


# -------------------------------------------------------------------------------- C02


def oracle_c02(rr: Any, spec: Dict[str, Any]) -> "tuple[List[Violation], int, int]":
    """Returns (violations, prefixes examined, acks seen)."""
    tr = rr.trace
    ret = first(tr, "listen_returned")
    if ret is not None:
        # what happens after listen() has returned is the harness closing its event loop (it cancels the callbacks
        # that wait_tasks_timeout left behind), not the worker
        tr = [e for e in tr if e["i"] <= ret["i"]]
    v: List[Violation] = []
    ack_type = spec.get("cfg", {}).get("ack", "when_saved")
    info = {i["d"]: i for i in rr.sc.deliveries}
    st: Dict[Any, Dict[str, Any]] = defaultdict(lambda: {
        "started": False, "ended": False, "how": None, "saved": False, "set_enter": False,
        "acks": 0, "exited": False, "raised": False,
    })
    prefixes = 0
    acks = 0
    # messages whose timeout label cannot be read as a number: their execution fails before the function is called
    bad_tmo = set()
    for d_, i_ in info.items():
        raw = (_msg_for(spec, i_) or {}).get("timeout_raw") if i_.get("kind") == "valid" else None
        if isinstance(raw, str) and not _is_number(raw):
            bad_tmo.add(d_)
    for e in tr:
        prefixes += 1
        d = e["m"]
        k = e["k"]
        s = st[d]
        if k == "cb_enter" and d in bad_tmo:
            s["ended"] = True
            s["how"] = "raise"
        if k == "task_start":
            s["started"] = True
            s["thread"] = bool(e.get("thread"))
        elif k == "task_end":
            s["ended"] = True
            s["how"] = e.get("how")
            if e.get("exc") == "GeneratorExit" and s.get("thread"):
                s["genexit_sync"] = True
        elif k == "dep_raise":
            # a dependency of the task failed while it was resolved: the execution is over (as a failure) without the
            # function ever being called
            s["ended"] = True
            s["how"] = s["how"] or "raise"
        elif k == "set_enter":
            s["set_enter"] = True
        elif k in ("set_exit", "set_fail"):
            s["saved"] = True
        elif k == "cb_raise":
            s["raised"] = True
        elif k == "cb_exit":
            s["exited"] = True
        elif k == "ack":
            acks += 1
            s["acks"] += 1
            if s["acks"] > 1:
                v.append(Violation("ack-twice", f"delivery {d} acknowledged {s['acks']} times ({ack_type})"))
                continue
            # crash-point reading: at this prefix the message is acked; its point must be reached
            if ack_type == "when_received":
                if s["started"]:
                    v.append(Violation("ack-late-when-received", f"delivery {d}: when_received ack after the task started"))
            elif ack_type == "when_executed":
                if not s["ended"]:
                    v.append(Violation("ack-early-when-executed", f"delivery {d}: ack before the task function finished (started={s['started']})"))
            elif ack_type == "when_saved":
                if s["how"] == "noresult" and not s["set_enter"]:
                    pass  # saving skipped for a no-result outcome
                elif not s["saved"]:
                    v.append(Violation("ack-early-when-saved", f"delivery {d}: ack before the result-store attempt completed (ended={s['ended']}, set_enter={s['set_enter']})"))
                if s["how"] == "noresult" and not s["ended"]:
                    v.append(Violation("ack-early-when-saved", f"delivery {d}: ack before no-result task finished"))
    for d, s in st.items():
        if d is None or d not in info:
            continue
        i = info[d]
        if not i.get("ackable") or i["kind"] != "valid":
            continue
        if s["exited"] and s["acks"] != 1:
            kind = "ack-missing"
            if s["raised"] and s.get("genexit_sync"):
                kind = "sync-task-generator-exit"
            v.append(Violation(kind, f"delivery {d}: processing ended (aborted={s['raised']}) with {s['acks']} acks ({ack_type}, how={s['how']})"))
    return v, prefixes, acks


# -------------------------------------------------------------------------------- C03


def oracle_c03(rr: Any, spec: Dict[str, Any]) -> "tuple[List[Violation], Dict[str, int]]":
    tr = rr.trace
    v: List[Violation] = []
    A = spec.get("cfg", {}).get("A")
    if not A or A < 0:
        A = None  # limit switched off: only progress is demanded
    stats = {"max_open": 0, "probe_max": 0}
    open_cb: set = set()
    running: set = set()
    probe = set(spec.get("_probe_toks", []))
    probe_running: set = set()
    yield_order = [e["m"] for e in tr if e["k"] == "yield"]
    enter_order = []
    hooks_open: Dict[Any, int] = {}
    exited: set = set()
    for e in tr:
        k, d = e["k"], e["m"]
        if k == "cb_enter":
            open_cb.add(d)
            enter_order.append(d)
            stats["max_open"] = max(stats["max_open"], len(open_cb))
            if A and len(open_cb) > A:
                v.append(Violation("over-admission", f"{len(open_cb)} messages in processing > max_async_tasks={A} at t={e['t']}"))
            if A == 1 and len(open_cb) > 1:
                v.append(Violation("not-serial", "limit 1 but two messages overlap"))
        elif k == "cb_exit":
            exited.add(d)
            if not hooks_open.get(d):
                open_cb.discard(d)
        elif k.startswith("mw:") and e.get("slow") and d is not None:
            # a middleware hook called for a message is part of the processing of that message, for as long as it runs
            hooks_open[d] = hooks_open.get(d, 0) + 1
        elif k.startswith("mw_end:") and d is not None:
            hooks_open[d] = hooks_open.get(d, 0) - 1
            if hooks_open[d] <= 0 and d in exited:
                open_cb.discard(d)
        elif k == "set_enter" and d is not None:
            # so is the writing of its result (a slow or failing result backend is one of the processing outcomes)
            hooks_open[d] = hooks_open.get(d, 0) + 1
            if d not in open_cb:
                # (written by something that outlives the callback: the message is in processing again)
                open_cb.add(d)
                if A and len(open_cb) > A:
                    v.append(Violation("over-admission", f"{len(open_cb)} messages in processing > max_async_tasks={A} at t={e['t']}: the result of "
                                       f"delivery {d} is being written after its slot was given to another message"))
        elif k in ("set_exit", "set_fail") and d is not None:
            hooks_open[d] = hooks_open.get(d, 0) - 1
            if hooks_open[d] <= 0 and d in exited:
                open_cb.discard(d)
        elif k == "loop_blocked":
            if not any(x.kind == "event-loop-blocked-by-sync-function" for x in v):
                v.append(Violation("event-loop-blocked-by-sync-function", f"while the sync function of delivery {d} ran in its executor thread the "
                                   "worker's event loop did not run for three seconds: it processes nothing else meanwhile"))
        elif k == "task_start":
            if e.get("on_loop_thread") and not any(x.kind == "sync-function-on-loop-thread" for x in v):
                v.append(Violation("sync-function-on-loop-thread", f"the blocking (sync) task function of delivery {d} ran on the event-loop thread: while it runs "
                                   "the worker processes nothing else, whatever max_async_tasks says"))
            running.add(d)
            if A and len(running) > A:
                v.append(Violation("over-admission", f"{len(running)} task functions running at once > max_async_tasks={A} at t={e['t']}"))
            if e.get("tok") in probe:
                probe_running.add(d)
                stats["probe_max"] = max(stats["probe_max"], len(probe_running))
        elif k == "task_end":
            running.discard(d)
            probe_running.discard(d)
    if A == 1 and enter_order != yield_order[: len(enter_order)]:
        v.append(Violation("order-broken", f"limit 1: processing order {enter_order[:8]} != delivery order {yield_order[:8]}"))
    if rr.outcome == "deadlock":
        v.append(Violation("deadlock", "worker deadlocked"))
    if rr.outcome == "raised":
        v.append(Violation("listen-raised", f"listen() raised {rr.err}"))
    if rr.outcome == "horizon":
        v.append(Violation("stall", "worker stopped making progress: stream ended but listen() did not return before the horizon"))
    if probe and spec.get("_probe_dep") and rr.outcome in ("returned", "api-horizon"):
        # ... and with a slow dependency in front of the probe tasks, that many messages resolve dependencies at once
        info_tok = {i["d"]: i["tok"] for i in rr.sc.deliveries}
        resolving: set = set()
        mx = 0
        for e in tr:
            if info_tok.get(e["m"]) in probe:
                if e["k"] == "dep_enter":
                    resolving.add(e["m"])
                    mx = max(mx, len(resolving))
                elif e["k"] in ("dep_open", "dep_raise"):
                    resolving.discard(e["m"])
        want_r = min(A, len(probe)) if A else len(probe)
        if mx < want_r:
            v.append(Violation("dependency-phase-serialised", f"saturation probe: only {mx} messages resolved their dependencies at the same time, expected {want_r}"))
    if probe and rr.outcome in ("returned", "api-horizon"):
        want = min(A, len(probe)) if A else len(probe)
        if stats["probe_max"] < want:
            v.append(Violation("slot-leak", f"saturation probe ran only {stats['probe_max']} tasks concurrently, expected {want}"))
    # every valid message executed (progress)
    starts = Counter(e["m"] for e in tr if e["k"] == "task_start")
    hooks_fail = {e["m"] for e in tr if e["k"].startswith("mw_raise:pre_execute")}
    # (an already expired timeout label, <= 0, likewise ends the message before the body gets to run)
    bad_label = {i for i, m in enumerate(spec.get("msgs", []))
                 if m.get("timeout_raw") is not None or (m.get("timeout") is not None and m["timeout"] <= 0)}
    tok_bad = {(m.get("tok") or f"m{i}") for i, m in enumerate(spec.get("msgs", [])) if i in bad_label}
    if rr.outcome in ("returned", "api-horizon"):
        for e in tr:
            if e["k"] == "yield" and e["mk"] == "valid" and e["m"] not in hooks_fail and not starts.get(e["m"]):
                if e.get("tok") in tok_bad:
                    continue  # timeout label is not a number: the message fails before the body is started
                v.append(Violation("message-dropped", f"delivery {e['m']} never executed"))
    return v, stats


# -------------------------------------------------------------------------------- C04


def oracle_c04(rr: Any, spec: Dict[str, Any]) -> "tuple[List[Violation], int]":
    """A message is unfinished from the broker's yield until its processing is over: Receiver.callback
    returned, the task function body (if it started) has ended, and every acknowledgement that was started
    has completed."""
    cfg = spec["cfg"]
    bound = cfg["A"] + cfg.get("P", 0) + 1
    mx = 0
    v: List[Violation] = []
    st: Dict[Any, Dict[str, int]] = {}
    unfinished: set = set()
    info = {i["d"]: i for i in rr.sc.deliveries}

    slow_td = {n for n, nd in (spec.get("deps") or {}).items() if nd.get("td_lat") and nd.get("style") in ("agen", "acm")}

    def done(s: Dict[str, int]) -> bool:
        if not (s["exit"] and s["body"] <= 0 and s["acks"] <= 0):
            return False
        if s.get("deps_open", 0) > 0:
            return False  # a dependency opened for this execution has not been closed yet
        if s.get("hooks_open", 0) > 0:
            return False  # a middleware hook started for this message is still running
        # an ackable, well-formed message is only finished once its acknowledgement has completed
        # (unless its processing aborted with an exception, then it is never acknowledged)
        if s.get("needs_ack") and not s.get("acked") and not s.get("raised"):
            return False
        return True

    for e in rr.trace:
        d, k = e["m"], e["k"]
        if d is None:
            continue
        s = st.setdefault(d, {"exit": 0, "body": 0, "acks": 0})
        if k == "yield":
            i = info.get(d, {})
            s["needs_ack"] = 1 if (i.get("ackable") and i.get("kind") == "valid") else 0
            unfinished.add(d)
            if len(unfinished) > mx:
                mx = len(unfinished)
                if mx > bound:
                    v.append(Violation("prefetch-bound-exceeded", f"{mx} unfinished messages > A+P+1={bound} (A={cfg['A']}, P={cfg.get('P', 0)}) at t={e['t']}"))
            continue
        if k == "cb_exit":
            s["exit"] = 1
        elif k == "task_start":
            s["body"] += 1
        elif k == "task_end":
            s["body"] -= 1
        elif k == "ack":
            s["acks"] += 1
        elif k == "ack_done":
            s["acks"] -= 1
            s["acked"] = 1
        elif k == "cb_raise":
            s["raised"] = 1
        elif k == "dep_open":
            s["deps_open"] = s.get("deps_open", 0) + 1
        elif k.startswith("mw:") and e.get("slow"):
            s["hooks_open"] = s.get("hooks_open", 0) + 1
        elif k.startswith("mw_end:"):
            s["hooks_open"] = s.get("hooks_open", 0) - 1
        elif k == "set_enter":  # the result of this message is being written: the message is still being worked on
            s["hooks_open"] = s.get("hooks_open", 0) + 1
        elif k in ("set_exit", "set_fail"):
            s["hooks_open"] = s.get("hooks_open", 0) - 1
        elif k == "kick_wait":  # a send this execution started (Context.requeue) is in flight: the message is still held
            s["hooks_open"] = s.get("hooks_open", 0) + 1
        elif k == "kick_wait_end":
            s["hooks_open"] = s.get("hooks_open", 0) - 1
        elif (k == "dep_closed" and e.get("dep") in slow_td) or (k == "dep_close" and e.get("dep") not in slow_td):
            s["deps_open"] = s.get("deps_open", 0) - 1
        if d in unfinished and done(s):
            unfinished.discard(d)
    return v, mx


# -------------------------------------------------------------------------------- C05


def oracle_c05(rr: Any, spec: Dict[str, Any]) -> List[Violation]:
    tr = rr.trace
    cfg = spec.get("cfg", {})
    A, N, W = cfg.get("A"), cfg.get("N"), cfg.get("W")
    if not A or A < 0:
        A = None  # no limit
    v: List[Violation] = []
    if rr.outcome == "raised":
        return [Violation("listen-raised", f"listen() raised {rr.err}")]
    if rr.outcome == "deadlock":
        v.append(Violation("deadlock", "worker deadlocked during shutdown"))
    yields = [e for e in tr if e["k"] == "yield"]
    stop = first(tr, "stop")
    # effective shutdown request S: stop event, or N-th yield (max-tasks recycle), or stream end
    S_idx: Optional[int] = None
    S_t: Optional[float] = None
    cause = None
    if stop is not None:
        S_idx, S_t, cause = stop["i"], stop["t"], "stop"
    if N and len(yields) >= N:
        yn = yields[N - 1]
        if S_idx is None or yn["i"] < S_idx:
            S_idx, S_t, cause = yn["i"], yn["t"], "max_tasks"
    se = first(tr, "stream_end")
    if se is not None and (S_idx is None or se["i"] < S_idx):
        S_idx, S_t, cause = se["i"], se["t"], "stream_end"
    if N and len(yields) > N:
        v.append(Violation("max-tasks-exceeded", f"max_tasks_to_execute={N} but {len(yields)} messages were taken from the broker"))
    if S_idx is None:
        return v  # no shutdown in this run (horizon run); nothing to judge
    after = [e for e in yields if e["i"] > S_idx]
    if cause == "stop" and len(after) > 1:
        v.append(Violation("took-messages-after-stop", f"{len(after)} messages taken after the stop request"))
    per = by_delivery(tr)
    # messages beyond the N-th are reported as max-tasks-exceeded above, not again below
    accepted = [e["m"] for e in (yields[:N] if N else yields)]
    exit_t: Dict[int, float] = {}
    enter_t: Dict[int, float] = {}
    for d in accepted:
        ce = first(per[d], "cb_exit")
        if ce is not None:
            exit_t[d] = ce["t"]
        cn = first(per[d], "cb_enter")
        if cn is not None:
            enter_t[d] = cn["t"]
    finite = all(_finite(rr, d) for d in accepted)
    R = rr.R if rr.outcome == "returned" else None
    # (b) drained at R
    if R is not None:
        ret_i = first(tr, "listen_returned")["i"]
        undone = [d for d in accepted if d not in exit_t or first(per[d], "cb_exit")["i"] > ret_i]
        if undone:
            if W is None:
                v.append(Violation("returned-before-drain", f"listen() returned at t={R} while deliveries {undone[:5]} were unfinished (no wait_tasks_timeout)"))
            elif R < S_t + W - 1e-9:
                v.append(Violation("returned-before-drain", f"listen() returned at t={R} < S+W={S_t + W} with unfinished deliveries {undone[:5]}"))
        # no accepted task function is still running (unless the wait timeout allowed the return)
        if W is None or R < S_t + W - 1e-9:
            for d in accepted:
                ts_ = first(per[d], "task_start")
                te_ = [e for e in per[d] if e["k"] == "task_end"]
                if ts_ is not None and ts_["i"] < ret_i and (not te_ or te_[-1]["i"] > ret_i) and d not in undone:
                    v.append(Violation("returned-while-function-running", f"listen() returned at t={R} while the task function of delivery {d} was still running (it started at t={ts_['t']})"))
                    break
        # acks complete for finished ackable deliveries
        for d in accepted:
            if d in exit_t and d not in undone:
                evs = per[d]
                if first(evs, "ack") is not None and first(evs, "ack_done") is None:
                    v.append(Violation("ack-incomplete", f"delivery {d} ack started but not completed at return"))
                inf = rr.sc.deliveries[d]
                # a callback that raised is excused only by a fault the scenario injected (a raising hook; an ack that
                # raises has an "ack" event): whatever the task function itself raises is a stored error, not an abort
                injected = any(e["k"].startswith("mw_raise:") for e in evs)
                if (inf.get("ackable") and inf.get("kind") == "valid" and first(evs, "ack") is None
                        and (first(evs, "cb_raise") is None or not injected) and first(evs, "task_start") is not None):
                    v.append(Violation("not-acknowledged-at-return", f"delivery {d} was executed and its processing ended normally, but it was never acknowledged (run to completion includes the acknowledgement)"))
    # (c)/(e) promptness and termination (bounded progress, virtual time)
    F = max([exit_t[d] for d in accepted if d in exit_t] + [S_t]) if accepted else S_t
    all_done_known = all(d in exit_t for d in accepted)
    if W is None:
        if finite:
            if R is None and rr.outcome == "horizon" and spec.get("horizon", 0) <= F + SLACK + 0.5:
                pass  # run cut before the limit: no verdict
            elif R is None:
                v.append(Violation("no-return", f"all accepted tasks are finite but listen() had not returned by the horizon (outcome={rr.outcome}, S={S_t}, last finish={F})"))
            elif R > F + SLACK and all_done_known:
                v.append(Violation("late-return", f"listen() returned at {R}, more than {SLACK}s after S={S_t} and last completion {F}"))
    else:
        T_ref = max([S_t] + list(enter_t.values()))
        limit = (min(F, T_ref + W) if all_done_known else T_ref + W) + SLACK
        late = (R is None) or (R > limit)
        if R is None and rr.outcome == "horizon" and spec.get("horizon", 0) <= limit + 0.5:
            late = False  # the run was cut before the limit: no verdict
        if late:
            # mechanism classification for the recorded finding F6: at T_ref all A execution
            # slots are occupied, so the runner cannot reach the shutdown sentinel (it needs a slot
            # first) and the timeout only starts when the first slot frees (t_free).  The finding
            # covers a return no later than t_free + W (+slack); anything later is unlisted.
            busy = sum(1 for d in accepted if d in enter_t and enter_t[d] <= T_ref and exit_t.get(d, float("inf")) > T_ref)
            kind = "late-return-with-timeout"
            if A and busy >= A:
                exits = sorted(exit_t.get(d, float("inf")) for d in accepted
                               if d in enter_t and enter_t[d] <= T_ref and exit_t.get(d, float("inf")) > T_ref)
                t_free = exits[0]
                if t_free == float("inf"):
                    if R is None:
                        kind = "wait-timeout-ignored-all-slots-busy"
                elif R is not None and R <= t_free + W + SLACK:
                    kind = "wait-timeout-ignored-all-slots-busy"
                elif R is None and spec.get("horizon", 0) <= t_free + W + SLACK + 0.5:
                    kind = "wait-timeout-ignored-all-slots-busy"
            v.append(Violation(kind, f"wait_tasks_timeout={W}: listen() returned at {R} (limit {limit}; S={S_t}, T_ref={T_ref}, busy slots at T_ref={busy}/{A})"))
    return v


def _finite(rr: Any, d: int) -> bool:
    info = rr.sc.deliveries[d]
    beh = rr.sc.beh.get(info["tok"]) or {}
    if isinstance(beh, list):
        return all("never" not in b.get("dur", []) for b in beh)
    if info["kind"] != "valid":
        return True
    return "never" not in beh.get("dur", [])


# -------------------------------------------------------------------------------- C06


def oracle_c06(rr: Any, spec: Dict[str, Any]) -> "tuple[List[Violation], int]":
    tr = rr.trace
    v: List[Violation] = []
    checked = 0
    tok_of = {i["d"]: i["tok"] for i in rr.sc.deliveries}
    # a message may carry the task id of another one (redelivery / re-used id): the id it was sent with
    tid_of = {f"m{i}": m["task_id"] for i, m in enumerate(spec.get("msgs", [])) if m.get("task_id")}
    tid_of = {d: tid_of.get(t, t) for d, t in tok_of.items()}
    # names of the labels every message carries: its own and the harness token
    names_of: Dict[str, List[str]] = {}
    for i, m in enumerate(spec.get("msgs", [])):
        if m.get("dup_of") is not None or m.get("task_id"):
            continue
        # (the harness sends through AsyncKicker(name, broker, labels): labels declared on the task are not merged in)
        nm = set(map(str, m.get("labels", {}))) | {"own"}
        if m.get("timeout") is not None or m.get("timeout_raw") is not None:
            nm.add("timeout")
        names_of[m.get("tok") or f"m{i}"] = sorted(nm)
        for b_ in (m.get("beh") if isinstance(m.get("beh"), list) else [m.get("beh") or {}]):
            ch = b_.get("spawn")
            if ch:
                names_of[ch["tok"]] = sorted(set(map(str, ch.get("labels", {}))) | {"own"})

    def chk(echo: Any, d: Any, where: str, uncached: bool = False) -> None:
        nonlocal checked
        if echo is None:
            return
        checked += 1
        want = tok_of.get(d)
        if list(echo)[:3] != [tid_of.get(d, want), want, want]:
            kind = "context-crosstalk-uncached-dependency" if uncached else "context-crosstalk"
            v.append(Violation(kind, f"{where} of delivery {d} ({want}) observed Context of {echo}"))
        elif len(echo) > 3 and want in names_of and sorted(echo[3]) != names_of[want]:
            v.append(Violation("labels-of-another-message", f"{where} of delivery {d} ({want}) observed labels named {echo[3]}, "
                               f"its message carries {names_of[want]}"))

    deps = spec.get("deps", {})
    for e in tr:
        if e["k"] in ("dep_enter", "dep_open"):
            chk(e.get("echo"), e["m"], f"dependency {e['dep']}", uncached=_in_uncached(spec, e["dep"]))
        elif e["k"] == "task_start":
            chk(e.get("echo"), e["m"], "task function")
            if e.get("tok") != tok_of.get(e["m"]):
                v.append(Violation("args-crosstalk", f"task of delivery {e['m']} received token {e.get('tok')}"))
            _walk_deps(e.get("deps"), e["m"], chk, spec)
        elif e["k"] == "progress":
            want = tok_of.get(e["m"])
            checked += 1
            if not isinstance(e.get("meta"), dict) or e["meta"].get("tok") != want:
                v.append(Violation("progress-crosstalk", f"progress of delivery {e['m']} ({want}) carries meta {e.get('meta')} of another message"))
        elif e["k"] == "set_progress":
            want = tid_of.get(e["m"])
            if e["task_id"] != want:
                v.append(Violation("progress-crosstalk", f"progress reported by delivery {e['m']} ({want}) stored under {e['task_id']}"))
        elif e["k"] == "set_pickled":
            # what a pickling backend keeps under this id: the error / value of this very execution
            want = tok_of.get(e["m"])
            checked += 1
            # (taskiq's own TaskRejectedError rebuilds its message from a template: it never carries arguments)
            if e.get("err_args") is not None and e.get("err") != "TaskRejectedError" \
                    and (not e["err_args"] or e["err_args"][0] != want):
                v.append(Violation("result-crosstalk", f"pickled result stored under {e['task_id']} carries the error "
                                   f"{e.get('err')}{tuple(e['err_args'])} of another execution (this one is {want})"))
            if isinstance(e.get("rv"), dict) and e["rv"].get("tok") not in (None, want):
                v.append(Violation("result-crosstalk", f"pickled result stored under {e['task_id']} was produced by {e['rv'].get('tok')}"))
        elif e["k"] == "set_enter":
            want = tok_of.get(e["m"])
            checked += 1
            if e["task_id"] != tid_of.get(e["m"]):
                v.append(Violation("result-wrong-id", f"result of delivery {e['m']} ({want}) stored under {e['task_id']}"))
            rv = e.get("rv")
            if isinstance(rv, dict) and rv.get("tok") not in (None, want):
                v.append(Violation("result-crosstalk", f"result stored under {e['task_id']} was produced by {rv.get('tok')}"))
            if isinstance(e.get("labels"), dict) and e["labels"].get("own") != want:
                v.append(Violation("result-labels-crosstalk", f"result for {want} carries labels of {e['labels'].get('own')}"))
            elif isinstance(e.get("labels"), dict) and want in names_of:
                got = sorted(str(k) for k in e["labels"] if k != "X-Taskiq-requeue")
                if got != names_of[want]:
                    v.append(Violation("result-labels-crosstalk", f"result for {want} carries labels named {got}, its message "
                                       f"carries {names_of[want]}"))
    return v, checked


def _in_uncached(spec: Dict[str, Any], name: str) -> bool:
    """True if the dependency is use_cache=False or reachable only below such a node."""
    deps = spec.get("deps", {})
    unc = {n for n, nd in deps.items() if not nd.get("cache", True)}
    # closure: subs of uncached nodes
    changed = True
    below = set(unc)
    while changed:
        changed = False
        for n in list(below):
            for s in deps[n].get("subs", []):
                if s not in below:
                    below.add(s)
                    changed = True
    return name in below


def _context_membership(spec: Dict[str, Any]) -> Dict[str, set]:
    """dep name -> {True} if every path from a task to it passes a use_cache=False node strictly above it (it is only
    ever opened in a resolver sub-context), {False} if no path does (main context only), {True, False} if both occur."""
    deps = spec.get("deps", {})
    out: Dict[str, set] = {}

    def walk(n: str, below: bool, depth: int = 0) -> None:
        if depth > 12 or n not in deps:
            return
        out.setdefault(n, set()).add(below)
        nxt = below or not deps[n].get("cache", True)
        for s_ in deps[n].get("subs", []):
            walk(s_, nxt, depth + 1)

    for ts in (spec.get("tasks") or {}).values():
        for r in ts.get("deps", []):
            walk(r, False)
    for orig, repl in (spec.get("overrides") or {}).items():
        walk(repl, False)
    return out


def _in_subcontext(spec: Dict[str, Any], name: str) -> bool:
    """True if the dependency sits strictly *below* a use_cache=False node: the resolver opens (and closes) those in a
    sub-context of their own, while the un-cached node itself belongs to the context of whoever depends on it."""
    deps = spec.get("deps", {})
    below: set = set()
    frontier = [s_ for n, nd in deps.items() if not nd.get("cache", True) for s_ in nd.get("subs", [])]
    while frontier:
        n = frontier.pop()
        if n in below:
            continue
        below.add(n)
        frontier.extend(deps[n].get("subs", []))
    return name in below


def _walk_deps(val: Any, d: Any, chk: Any, spec: Dict[str, Any]) -> None:
    if isinstance(val, dict):
        if "dep" in val and "echo" in val:
            chk(val["echo"], d, f"value of dependency {val['dep']}", uncached=_in_uncached(spec, val["dep"]))
            for s in val.get("subs", []):
                _walk_deps(s, d, chk, spec)
        else:
            for x in val.values():
                _walk_deps(x, d, chk, spec)
    elif isinstance(val, list):
        for x in val:
            _walk_deps(x, d, chk, spec)


# -------------------------------------------------------------------------------- C07


def oracle_c07(rr: Any, spec: Dict[str, Any]) -> "tuple[List[Violation], int]":
    tr = rr.trace
    v: List[Violation] = []
    per = by_delivery(tr)
    checked = 0
    saved = {d: (tid, res) for d, tid, res in rr.sc.saved}
    nsaved = Counter(d for d, _, _ in rr.sc.saved)
    for info in rr.sc.deliveries:
        d = info["d"]
        evs = per.get(d, [])
        if info["kind"] != "valid" or first(evs, "cb_exit") is None:
            continue
        te = [e for e in evs if e["k"] == "task_end"]
        ts = first(evs, "task_start")
        m = _msg_for(spec, info)
        if ts is None:
            # the body never started: only legitimate for a timeout label that has already expired
            tmo = m.get("timeout")
            if tmo is not None and tmo <= 0 and info.get("task") != "t_sync":
                checked += 1
                got = [r for dd, _, r in rr.sc.saved if dd == d]
                if len(got) != 1 or not got[0].is_err or not isinstance(got[0].error, TimeoutError):
                    v.append(Violation("timeout-result-wrong", f"delivery {d}: timeout label {tmo} but stored results {[(r.is_err, r.error) for r in got]}"))
            else:
                # ... whatever else kept it from starting, a *successful* result cannot come out of it
                ok_res = [r for dd, _, r in rr.sc.saved if dd == d and not r.is_err]
                if ok_res:
                    checked += 1
                    v.append(Violation("result-without-execution", f"delivery {d} ({info.get('task')}): the task function's body never ran, "
                                       f"yet a result with is_err=False, return_value={ok_res[0].return_value!r} was stored"))
            continue
        beh = rr.sc.beh.get(info["tok"]) or {}
        checked += 1
        how = te[-1]["how"] if te else None
        n = nsaved.get(d, 0)
        if how == "noresult":
            if n:
                v.append(Violation("saved-on-noresult", f"delivery {d}: no-result outcome but {n} results stored"))
            continue
        if n != 1:
            kind = "result-count"
            if n == 0 and how == "raise" and te[-1].get("exc") == "GeneratorExit" and ts.get("thread") \
                    and first(evs, "cb_raise") is not None:
                kind = "sync-task-generator-exit"
            v.append(Violation(kind, f"delivery {d}: outcome {how} ({te[-1].get('exc')}) but {n} results stored"))
            continue
        tid, res = saved[d]
        retag = any(hs.get("retag") for mw in spec.get("mws", []) for hs in mw.values() if isinstance(hs, dict))
        if tid != info["tok"] + ("@w" if retag else ""):
            v.append(Violation("result-wrong-id", f"delivery {d} stored under {tid}" + (" (the executed message was re-tagged by pre_execute to " + info["tok"] + "@w)" if retag else "")))
        labels_want = _labels_want(m, info["tok"])
        got_labels = {k: x for k, x in dict(res.labels).items() if not k.startswith("mk_")}
        if got_labels != labels_want:
            v.append(Violation("result-labels", f"delivery {d}: result labels {got_labels} != message labels {labels_want}"))
        timeout = m.get("timeout")
        dur = _dur_total(beh)
        if how == "return":
            if timeout is not None and dur is not None and dur > timeout + 1e-9 and ts.get("thread") is None:
                v.append(Violation("timeout-not-enforced", f"delivery {d}: duration {dur} > timeout {timeout} but the task returned normally"))
            if res.is_err or res.error is not None:
                v.append(Violation("is-err-wrong", f"delivery {d} returned but result has is_err={res.is_err}, error={res.error!r}"))
            want = {"tok": info["tok"], "v": beh.get("value")}
            got = res.return_value
            if "ret_raw" in beh:
                rw = beh["ret_raw"]
                rw = tuple(rw["__tuple__"]) if isinstance(rw, dict) and "__tuple__" in rw else rw
                if type(got) is not type(rw) or got != rw or repr(got) != repr(rw):
                    v.append(Violation("return-value-wrong", f"delivery {d}: the function returned {rw!r}, the stored return_value is {got!r}"))
            elif beh.get("ret_model"):
                cls_name = "_ReqModel" if beh["ret_model"] == "model" else "_Unit"
                if type(got).__name__ != cls_name or getattr(got, "name", None) != info["tok"]:
                    v.append(Violation("return-value-wrong", f"delivery {d}: the function returned a {cls_name} object, the stored return_value is "
                                       f"{got!r} ({type(got).__name__})"))
            elif beh.get("ret_exc"):
                if not (isinstance(got, ValueError) and got.args == ("just a value", info["tok"])):
                    v.append(Violation("return-value-wrong", f"delivery {d}: the function returned an exception object as its value, the stored return_value is {got!r} (is_err={res.is_err}, error={res.error!r})"))
            elif not isinstance(got, dict) or got.get("tok") != want["tok"] or got.get("v") != want["v"]:
                v.append(Violation("return-value-wrong", f"delivery {d}: stored return_value {got!r}, expected token/value {want}"))
            elif beh.get("ret_handle") and type(got).__name__ != "_Handle":
                v.append(Violation("return-value-wrong", f"delivery {d}: the function returned an awaitable handle object, the stored return_value is {type(got).__name__}"))
        elif how == "raise":
            exc = rr.sc.raised.get(d)
            if not res.is_err:
                v.append(Violation("is-err-wrong", f"delivery {d} raised {type(exc).__name__} but result has is_err=False"))
            if exc is not None and (type(res.error) is not type(exc) or res.error.args != exc.args):
                v.append(Violation("error-wrong", f"delivery {d} raised {exc!r} but result.error={res.error!r}"))
            if res.return_value is not None:
                v.append(Violation("return-value-wrong", f"delivery {d} raised but return_value={res.return_value!r}"))
        elif how == "cancelled":
            # cancellation of the body => must be the timeout label
            if timeout is None:
                v.append(Violation("spurious-cancel", f"delivery {d}: task body cancelled without a timeout label"))
            else:
                if dur is not None and dur < timeout - 1e-9:
                    v.append(Violation("timeout-early", f"delivery {d}: cancelled although duration {dur} < timeout {timeout}"))
                if not res.is_err or not isinstance(res.error, TimeoutError):
                    v.append(Violation("timeout-result-wrong", f"delivery {d}: timed out but stored is_err={res.is_err}, error={res.error!r}"))
    # the bundled in-memory backend (bounded store): whatever it evicts, the result saved last is there
    stock = getattr(rr.sc, "stock_backend", None)
    last = getattr(rr.sc, "stock_last", None)
    if stock is not None and last is not None:
        if stock.results.get(last[0]) is not last[1]:
            v.append(Violation("stored-result-lost", f"InmemoryResultBackend(max_stored_results={stock.max_stored_results}): the result saved last (task id {last[0]}) is not in the store; it holds {list(stock.results)}"))
    # backend failures never block: all callbacks of yielded valid deliveries ended
    if rr.outcome == "returned":
        for info in rr.sc.deliveries:
            evs = per.get(info["d"], [])
            if first(evs, "yield") is not None and first(evs, "cb_exit") is None:
                v.append(Violation("processing-incomplete", f"delivery {info['d']} never completed processing"))
            if first(evs, "set_fail") is not None and first(evs, "cb_raise") is not None:
                v.append(Violation("backend-failure-propagated", f"delivery {info['d']}: backend failure escaped the message processing"))
            if first(evs, "set_fail") is not None and info.get("ackable") and first(evs, "cb_exit") is not None \
                    and first(evs, "ack") is None:
                v.append(Violation("backend-failure-blocks-completion", f"delivery {info['d']}: result backend failed and the message never completed processing (no acknowledgement)"))
    elif rr.outcome in ("deadlock", "horizon", "raised"):
        v.append(Violation("worker-stalled", f"worker outcome {rr.outcome} ({rr.err})"))
    return v, checked


def _msg_for(spec: Dict[str, Any], info: Dict[str, Any]) -> Dict[str, Any]:
    """The scripted message of a delivery (by token: delivery numbers follow kick order in in-memory runs)."""
    tok = info.get("tok") or ""
    msgs = spec.get("msgs", [])
    for i, m in enumerate(msgs):
        if (m.get("tok") or f"m{i}") == tok:
            return m
    return {}


def _labels_want(m: Dict[str, Any], tok: str) -> Dict[str, Any]:
    want = dict(m.get("labels", {}))
    want["own"] = tok
    if m.get("timeout") is not None:
        want["timeout"] = str(m["timeout"]) if m.get("timeout_str") else m["timeout"]
    return want


def _dur_total(beh: Dict[str, Any]) -> Optional[float]:
    tot = 0.0
    for s in beh.get("dur", []):
        if s == "y":
            continue
        if s == "never":
            return float("inf")
        tot += float(s[1:]) if isinstance(s, str) else s
    return tot


# -------------------------------------------------------------------------------- C10


WORKER_HOOKS = ("pre_execute", "on_error", "post_execute", "post_save")


def oracle_c10(rr: Any, spec: Dict[str, Any]) -> "tuple[List[Violation], int]":
    tr = rr.trace
    v: List[Violation] = []
    mws = spec.get("mws", [])
    checked = 0

    def overriding(hook: str) -> List[int]:
        return [i for i, m in enumerate(mws) if hook in m]

    # ---- client side: per token
    sends: Dict[str, List[Dict[str, Any]]] = defaultdict(list)
    for e in tr:
        if e["k"] in ("mw:pre_send", "mw:post_send", "kick", "kick_fail", "send_ok", "send_err", "send_begin"):
            tok = e.get("tok") or e.get("task_id")
            sends[tok].append(e)
    via2 = {c["tok"] for c in spec.get("client_sends", []) if c.get("via_broker2")}
    requeuers = {c["tok"] for c in spec.get("client_sends", []) if isinstance(c.get("beh"), list) and c["beh"][0].get("out") == "requeue"}
    unencodable = {c["tok"] for c in spec.get("client_sends", []) if c.get("bad_arg")}
    mws2 = spec.get("mws2", [])
    for tok, evs in sends.items():
        if first(evs, "send_begin") is None:
            continue
        checked += 1
        if tok in requeuers:
            # Context.requeue() hands the message to the broker directly (no kicker): that kick is not a send of the client
            evs = [e for e in evs if not (e["k"] == "kick" and e.get("m") is not None)]
        seq = [(e["k"], e.get("mw")) for e in evs if e["k"] not in ("send_begin", "send_ok", "send_err", "kick_fail")]
        failed = first(evs, "kick_fail") is not None
        if tok in via2:
            # sent with kicker.with_broker(other): the hooks of the *receiving* broker's middlewares apply
            want = [("mw:pre_send", 100 + j) for j, m in enumerate(mws2) if "pre_send" in m] + [("kick", None)]
            want += [("mw:post_send", 100 + j) for j, m in enumerate(mws2) if "post_send" in m]
            if seq != want:
                v.append(Violation("client-hook-order", f"send {tok} via with_broker(): observed {seq}, expected {want}"))
            continue
        if tok in unencodable:
            # the send fails while the message is encoded: hooks before the send ran, the broker saw nothing
            want = [("mw:pre_send", i) for i in overriding("pre_send")]
            if seq != want:
                v.append(Violation("client-hook-order", f"send {tok} (un-encodable argument): observed {seq}, expected {want}"))
            se = first(evs, "send_err")
            if se is None or not se.get("is_send_error"):
                v.append(Violation("send-error-type", f"send {tok}: encoding failure surfaced as {se and se.get('exc')}, not a SendTaskError"))
            continue
        want = [("mw:pre_send", i) for i in overriding("pre_send")] + [("kick", None)]
        if not failed:
            want += [("mw:post_send", i) for i in overriding("post_send")]
        nk = sum(1 for x in seq if x[0] == "kick")
        if spec.get("retry") and nk > 1:
            # re-sends of the retry middleware are sends like any other; they may overlap the tail of the
            # previous send (slow post_send hooks), so the events are grouped by the _retries counter
            groups: Dict[int, List[Any]] = defaultdict(list)
            for e in evs:
                if e["k"] in ("mw:pre_send", "mw:post_send"):
                    groups[int((e.get("labels") or {}).get("_retries", 0) or 0)].append((e["k"], e.get("mw")))
                elif e["k"] == "kick":
                    groups[int(e.get("retries", 0) or 0)].append(("kick", None))
            for r_, g in sorted(groups.items()):
                if g != want:
                    v.append(Violation("client-hook-order", f"send {tok}, re-send #{r_}: observed {g}, expected {want}"))
                    break
            continue
        if seq != want:
            v.append(Violation("client-hook-order", f"send {tok}: observed {seq}, expected {want}"))
            continue
        # each pre_send sees predecessors' markers
        marks: List[str] = []
        for e in evs:
            if e["k"] == "mw:pre_send":
                if e["marks"] != sorted(marks):
                    v.append(Violation("pre-send-chain", f"send {tok}: pre_send of mw{e['mw']} saw markers {e['marks']}, expected {sorted(marks)}"))
                if mws[e["mw"]]["pre_send"].get("replace"):
                    marks.append(f"mk_{e['mw']}_pre_send")
        if failed:
            se = first(evs, "send_err")
            if se is None or not se.get("is_send_error"):
                v.append(Violation("send-error-type", f"send {tok}: failed kick ({se and se.get('cause')}) surfaced as {se and se.get('exc')}, not a SendTaskError"))
            if first(evs, "send_ok") is not None:
                v.append(Violation("send-error-swallowed", f"send {tok}: kick failed but kiq() returned normally"))
        elif first(evs, "send_ok") is None:
            v.append(Violation("send-failed", f"send {tok}: no failure injected but kiq() raised {first(evs, 'send_err')}"))
    # ---- worker side: per delivery
    per = by_delivery(tr)
    send_of = {s_["tok"]: s_ for s_ in spec.get("client_sends", [])}
    seen_toks: set = set()
    for info in rr.sc.deliveries:
        d = info["d"]
        evs = per.get(d, [])
        again = info["tok"] in seen_toks  # a later delivery of a message the worker has handled before
        seen_toks.add(info["tok"])
        if first(evs, "cb_exit") is None or first(evs, "cb_enter") is None or info["kind"] != "valid":
            continue
        checked += 1
        seq = []
        for e in evs:
            k = e["k"]
            if k.startswith("mw:") and k[3:] in WORKER_HOOKS:
                seq.append((k[3:], e["mw"]))
            elif k in ("task_start", "task_end", "set_enter", "set_exit", "set_fail"):
                seq.append((k, None))
        te = [e for e in evs if e["k"] == "task_end"]
        how = te[-1]["how"] if te else None
        want = [("pre_execute", i) for i in overriding("pre_execute")]
        lab_t = (send_of.get(info["tok"]) or {}).get("labels", {}).get("timeout")
        if isinstance(lab_t, str) and not _is_number(lab_t):
            how = "raise"  # the label cannot be read: the execution fails before the function is started
        else:
            want += [("task_start", None), ("task_end", None)]
        if how in ("raise", "cancelled", "noresult"):
            want += [("on_error", i) for i in overriding("on_error")]
        want += [("post_execute", i) for i in overriding("post_execute")]
        resent = any(e["k"] == "kick" for e in evs)
        if resent and (spec.get("retry") or {}).get("no_result_on_retry"):
            pass  # the retry middleware took the failure over: nothing is stored for this attempt
        elif how != "noresult":
            want.append(("set_enter", None))
            if first(evs, "set_fail") is not None:
                want.append(("set_fail", None))
            else:
                want.append(("set_exit", None))
                want += [("post_save", i) for i in overriding("post_save")]
        if seq != want:
            v.append(Violation("worker-hook-order", f"delivery {d} (outcome {how}): observed {seq}, expected {want}"))
            continue
        if resent and spec.get("retry") is not None:
            # the retry middleware is one of the registered middlewares: its on_error (which re-sends the message) runs
            # at its own place in the registration order
            pos = min(spec["retry"].get("pos", 0), len(mws))
            kick_i = next(e["i"] for e in evs if e["k"] == "kick")
            for e in evs:
                if e["k"] == "mw:on_error" and ((e["mw"] < pos) != (e["i"] < kick_i)):
                    v.append(Violation("worker-hook-order", f"delivery {d}: on_error of middleware {e['mw']} ran {'before' if e['i'] < kick_i else 'after'} the retry "
                                       f"middleware's on_error, which is registered at position {pos}"))
                    break
        arrived = (first(evs, "mw:pre_execute") or {}).get("marks", [])
        # a re-sent message (retry middleware) arrives with the markers its previous delivery had collected
        # (so does one that its task handed back with Context.requeue())
        marks = sorted(k for k in arrived if "pre_send" in k or spec.get("retry") or (again and info["tok"] in requeuers))
        for e in evs:
            if e["k"] == "mw:pre_execute":
                if e["marks"] != sorted(set(marks)):
                    v.append(Violation("pre-execute-chain", f"delivery {d}: pre_execute of mw{e['mw']} saw {e['marks']}, expected {sorted(set(marks))}"))
                if mws[e["mw"]]["pre_execute"].get("replace"):
                    marks.append(f"mk_{e['mw']}_pre_execute")
    return v, checked


def _is_number(x: str) -> bool:
    try:
        float(x)
        return True
    except ValueError:
        return False


# -------------------------------------------------------------------------------- C12


def oracle_c12(rr: Any, spec: Dict[str, Any]) -> "tuple[List[Violation], int]":
    tr = rr.trace
    v: List[Violation] = []
    ret = first(tr, "listen_returned")
    if ret is not None:
        # what happens after listen() has returned is the harness closing its event loop (it cancels the executions
        # that wait_tasks_timeout left behind), not the worker
        tr = [e for e in tr if e["i"] <= ret["i"]]
    per = by_delivery(tr)
    cfg = spec.get("cfg", {})
    propagate = cfg.get("propagate", True)
    deps = spec.get("deps", {})
    yielding = {n for n, nd in deps.items() if nd["style"] in ("gen", "agen", "cm", "acm")}
    checked = 0
    for info in rr.sc.deliveries:
        d = info["d"]
        evs = per.get(d, [])
        if info["kind"] == "valid" and first(evs, "cb_exit") is None and first(evs, "task_start") is not None \
                and first(evs, "task_end") is None:
            # an execution the worker left running when it returned: its function has not finished, so none of its
            # dependencies may have been finalised
            early = [e for e in evs if e["k"] == "dep_close"]
            if early:
                checked += 1
                v.append(Violation("teardown-early", f"delivery {d}: {early[0]['dep']} torn down at t={early[0]['t']} while the task function "
                                   "was still running (the worker had stopped waiting for it)"))
            continue
        if first(evs, "cb_exit") is None or info["kind"] != "valid":
            continue
        opens = [e for e in evs if e["k"] == "dep_open" and e["dep"] in yielding]
        closes = [e for e in evs if e["k"] == "dep_close"]
        if not opens and not closes:
            continue
        checked += 1
        # each opened instance closed exactly once: match by dep name multiset (a dep may be
        # opened several times when un-cached); pair opens and closes per name
        oc = Counter(e["dep"] for e in opens)
        cc = Counter(e["dep"] for e in closes)
        if oc != cc:
            miss = {k: (oc[k], cc.get(k, 0)) for k in set(oc) | set(cc) if oc.get(k, 0) != cc.get(k, 0)}
            v.append(Violation("teardown-count", f"delivery {d}: opened/closed counts differ {miss}"))
            continue
        # reverse order: closing sequence must be the reverse of opening sequence
        open_seq = [e["dep"] for e in opens]
        close_seq = [e["dep"] for e in closes]
        if close_seq != list(reversed(open_seq)):
            kind = "close-order"
            if _only_uncached_inversions(spec, open_seq, close_seq):
                kind = "close-order-uncached-subgraph"
            v.append(Violation(kind, f"delivery {d}: opened {open_seq}, closed {close_seq} (expected reverse)"))
        # position: after task end / failing dependency, before post_execute, set_enter, post-exec ack
        te = [e for e in evs if e["k"] == "task_end"]
        dr = first(evs, "dep_raise")
        anchor = te[-1]["i"] if te else (dr["i"] if dr else None)
        ack_type = cfg.get("ack", "when_saved")
        for c in closes:
            if anchor is not None and c["i"] < anchor:
                v.append(Violation("teardown-early", f"delivery {d}: {c['dep']} torn down before the task function / failing dependency finished"))
        last_close = max([c["i"] for c in closes] + [e["i"] for e in evs if e["k"] == "dep_closed"]) if closes else None
        for e in evs:
            if last_close is None:
                break
            if e["i"] < last_close and (
                e["k"] in ("set_enter", "mw:post_execute", "mw:on_error")
                or (e["k"] == "ack" and ack_type != "when_received")
            ):
                v.append(Violation("teardown-late", f"delivery {d}: {e['k']} happened before all dependencies were torn down"))
                break
        # exception propagation
        how = te[-1]["how"] if te else ("depfail" if dr else None)
        bad_label = _msg_for(spec, info).get("timeout_raw") is not None
        if bad_label:
            # the execution failed (ValueError: the timeout label is not a number) after the dependencies were
            # opened; the function itself must never be started, least of all after the teardown
            ts_ = first(evs, "task_start")
            if ts_ is not None:
                v.append(Violation("teardown-early" if closes and ts_["i"] > closes[0]["i"] else "ran-despite-invalid-timeout",
                                   f"delivery {d}: the execution failed on its timeout label, its dependencies were torn down - and the task function ran at t={ts_['t']}"))
            how = how or "badlabel"
        failed = how in ("raise", "cancelled", "noresult", "depfail", "badlabel")
        for c in closes:
            seen = c.get("exc_seen") is not None
            if seen != (failed and propagate):
                v.append(Violation("exception-propagation", f"delivery {d}: dependency {c['dep']} exc_seen={c.get('exc_seen')} with outcome={how}, propagate={propagate}"))
                break
            raised = rr.sc.raised.get(d)
            if seen and how == "raise" and raised is not None and c["exc_seen"] != type(raised).__name__:
                # ... and what is thrown is the task's exception, not something made from it
                v.append(Violation("exception-propagation", f"delivery {d}: the task raised {type(raised).__name__}, dependency {c['dep']} had "
                                   f"{c['exc_seen']} thrown into it"))
                break
    if rr.outcome in ("deadlock", "raised"):
        v.append(Violation("worker-stalled", f"outcome {rr.outcome}: {rr.err}"))
    return v, checked


def _only_uncached_inversions(spec: Dict[str, Any], open_seq: List[str], close_seq: List[str]) -> bool:
    """Mechanism classifier for F8: every inverted pair has a member inside an un-cached sub-graph
    (a dependency that is use_cache=False or below such a node, i.e. opened/closed by a resolver
    sub-context).  Equivalently: after removing those dependencies from both sequences, what is
    left (the main context's own dependencies) is closed in exact reverse order of opening.
    Robust against dependencies that are opened several times (un-cached ones are)."""
    if sorted(open_seq) != sorted(close_seq):
        return False
    main_open = [n for n in open_seq if not _in_uncached(spec, n)]
    main_close = [n for n in close_seq if not _in_uncached(spec, n)]
    if len(main_open) == len(open_seq):
        return False  # no un-cached sub-graph involved at all
    if main_close != list(reversed(main_open)):
        return False
    # the recorded mechanism closes the resolver's sub-contexts *first* and the main context's own dependencies after
    # them: any other placement of the un-cached sub-graph's dependencies is a different defect
    where = _context_membership(spec)
    sub_pos = [i for i, n in enumerate(close_seq) if where.get(n) == {True}]
    main_pos = [i for i, n in enumerate(close_seq) if where.get(n) == {False}]
    return not main_pos or not sub_pos or max(sub_pos) < min(main_pos)
