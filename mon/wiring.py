"""Configuration wiring monitors: what a user configures on the command line (`taskiq worker ...`) or passes to
`taskiq.api.run_receiver_task` must be the configuration the Receiver is built with - every time it is built.

The worker checks verify the Receiver *given* (max_async_tasks, max_prefetch, ack type, ...); these probes close the
gap between those parameters and the public entry points that set them.  The real `WorkerArgs.from_cli` and
`start_listen` / `run_receiver_task` run; only the receiver class is a recording stub whose listen() ends at once.
"""
from __future__ import annotations

import asyncio
import random
import signal
from typing import Any, Dict, List, Tuple

from taskiq import AsyncBroker
from taskiq.acks import AcknowledgeType
from taskiq.receiver import Receiver

BUILDS: List[Dict[str, Any]] = []
LISTEN_PLAN: List[str] = []


class _NullBroker(AsyncBroker):
    async def kick(self, message: Any) -> None:
        return None

    async def listen(self) -> Any:  # type: ignore[override]
        if False:
            yield b""


BROKER = _NullBroker()


class RecordingStubReceiver(Receiver):
    """Records the keyword arguments it is built with; listen() follows LISTEN_PLAN."""

    def __init__(self, **kwargs: Any) -> None:
        BUILDS.append({k: v for k, v in kwargs.items() if k not in ("broker", "executor", "on_exit")})
        super().__init__(**kwargs)

    async def listen(self, finish_event: Any) -> None:  # type: ignore[override]
        step = LISTEN_PLAN.pop(0) if LISTEN_PLAN else "cancel"
        if step == "fail":
            raise ConnectionError("stream broken")
        if step == "cancel":
            raise asyncio.CancelledError
        return None


def _cli_case(rng: random.Random) -> Tuple[List[str], Dict[str, Any]]:
    A = rng.choice([1, 2, 3, 7, 50])
    P = rng.choice([0, 1, 2, 5])
    want: Dict[str, Any] = {"max_async_tasks": A, "max_prefetch": P, "validate_params": True, "propagate_exceptions": True,
                            "ack_type": AcknowledgeType.WHEN_SAVED, "max_tasks_to_execute": None, "wait_tasks_timeout": None}
    opts: List[List[str]] = [["--max-async-tasks", str(A)], ["--max-prefetch", str(P)], ["--receiver", "mon.wiring:RecordingStubReceiver"],
                             ["--no-configure-logging"]]
    if rng.random() < 0.6:
        opts.append(["--max-fails", str(rng.choice([-1, 0, 1, 3, 4, 9]))])
    if rng.random() < 0.5:
        opts.append(["--workers", str(rng.choice([1, 2, 4, 6]))])
    if rng.random() < 0.5:
        opts.append(["--hardkill-count", str(rng.choice([0, 1, 3, 8]))])
    if rng.random() < 0.5:
        opts.append(["--max-threadpool-threads", str(rng.choice([1, 2, 9]))])
    if rng.random() < 0.4:
        opts.append(["--shutdown-timeout", str(rng.choice([1, 2.5, 11]))])
    if rng.random() < 0.5:
        t = rng.choice(list(AcknowledgeType))
        opts.append(["--ack-type", t.value])
        want["ack_type"] = t
    if rng.random() < 0.5:
        n = rng.choice([1, 2, 6, 13])
        opts.append(["--max-tasks-per-child", str(n)])
        want["max_tasks_to_execute"] = n
    if rng.random() < 0.5:
        w = rng.choice([0, 1, 4, 12])
        opts.append(["--wait-tasks-timeout", str(w)])
        want["wait_tasks_timeout"] = float(w)
    if rng.random() < 0.3:
        opts.append(["--no-parse"])
        want["validate_params"] = False
    if rng.random() < 0.3:
        opts.append(["--no-propagate-errors"])
        want["propagate_exceptions"] = False
    rng.shuffle(opts)
    argv = ["mon.wiring:BROKER"] + [x for o in opts for x in o]
    return argv, want


def _same(a: Any, b: Any) -> bool:
    if isinstance(a, float) or isinstance(b, float):
        try:
            return float(a) == float(b)
        except (TypeError, ValueError):
            return False
    return a == b


def cli_wiring_probe(n: int, seed: int, fields: List[str]) -> Dict[str, Any]:
    """n random command lines through WorkerArgs.from_cli + start_listen; returns counters and the first mismatch."""
    from taskiq.cli.worker.args import WorkerArgs
    from taskiq.cli.worker.run import start_listen

    rng = random.Random(seed)
    out: Dict[str, Any] = {"cli_command_lines": 0, "cli_wiring_mismatches": 0}
    saved = {s: signal.getsignal(s) for s in (signal.SIGINT, signal.SIGTERM, signal.SIGHUP)}
    try:
        old_loop = None
        for _ in range(n):
            argv, want = _cli_case(rng)
            del BUILDS[:]
            LISTEN_PLAN[:] = ["return"]
            try:
                args = WorkerArgs.from_cli(argv)
                start_listen(args)
            except BaseException as exc:  # noqa: BLE001
                out["cli_wiring_mismatches"] += 1
                out.setdefault("first", f"`taskiq worker {' '.join(argv)}` raised {exc!r}")
                continue
            finally:
                try:
                    asyncio.get_event_loop_policy().get_event_loop().close()
                except Exception:  # noqa: BLE001
                    pass
            out["cli_command_lines"] += 1
            got = BUILDS[0] if BUILDS else {}
            bad = [f for f in fields if not _same(got.get(f), want[f])]
            if len(BUILDS) != 1 or bad:
                out["cli_wiring_mismatches"] += 1
                out.setdefault("first", f"`taskiq worker {' '.join(argv)}` built the receiver with "
                               + ", ".join(f"{f}={got.get(f)!r} (command line says {want[f]!r})" for f in bad or fields))
        del old_loop
    finally:
        for s, h in saved.items():
            try:
                signal.signal(s, h)
            except (ValueError, TypeError):
                pass
        try:
            asyncio.set_event_loop(None)
        except Exception:  # noqa: BLE001
            pass
    return out


def api_wiring_probe(n: int, seed: int, fields: List[str]) -> Dict[str, Any]:
    """run_receiver_task with random parameters; the stream fails 0-3 times (listen raises) before the run is
    cancelled: every receiver it builds must carry the parameters of the call."""
    from taskiq.api import run_receiver_task

    rng = random.Random(seed)
    out: Dict[str, Any] = {"api_calls": 0, "api_receivers_built": 0, "api_wiring_mismatches": 0}
    for _ in range(n):
        want = {"max_async_tasks": rng.choice([1, 2, 5, 40]), "max_prefetch": rng.choice([0, 1, 3]),
                "validate_params": rng.random() < 0.5, "propagate_exceptions": rng.random() < 0.5,
                "ack_type": rng.choice([None] + list(AcknowledgeType)), "run_startup": rng.random() < 0.3}
        fails = rng.choice([0, 0, 1, 2, 3])
        del BUILDS[:]
        LISTEN_PLAN[:] = ["fail"] * fails + ["cancel"]

        async def main() -> None:
            try:
                await run_receiver_task(BROKER, receiver_cls=RecordingStubReceiver, sync_workers=1,
                                        validate_params=want["validate_params"], max_async_tasks=want["max_async_tasks"],
                                        max_prefetch=want["max_prefetch"], propagate_exceptions=want["propagate_exceptions"],
                                        run_startup=want["run_startup"], ack_time=want["ack_type"])
            except asyncio.CancelledError:
                pass

        loop = asyncio.new_event_loop()
        try:
            loop.run_until_complete(asyncio.wait_for(main(), timeout=20))
        except BaseException as exc:  # noqa: BLE001
            out["api_wiring_mismatches"] += 1
            out.setdefault("first", f"run_receiver_task({want}) raised {exc!r}")
            continue
        finally:
            loop.close()
        out["api_calls"] += 1
        out["api_receivers_built"] += len(BUILDS)
        if len(BUILDS) != fails + 1:
            out["api_wiring_mismatches"] += 1
            out.setdefault("first", f"run_receiver_task: {len(BUILDS)} receivers built for {fails} stream failures")
            continue
        for k, got in enumerate(BUILDS):
            bad = [f for f in fields if f in want and not _same(got.get(f), want[f])]
            if bad:
                out["api_wiring_mismatches"] += 1
                out.setdefault("first", f"run_receiver_task(..., " + ", ".join(f"{f}={want[f]!r}" for f in bad) + f"): receiver #{k + 1} "
                               f"(after {k} stream failure(s)) was built with " + ", ".join(f"{f}={got.get(f)!r}" for f in bad))
                break
    return out


def merge_violation(merged: Dict[str, Any], what: str) -> None:
    """post_merge helper: turn wiring mismatches counted by a shard epilogue into a violation."""
    c = merged["counters"]
    n = c.get("cli_wiring_mismatches", 0) + c.get("api_wiring_mismatches", 0)
    if not n:
        return
    first = None
    for k in list(c):
        if k.startswith("wiring_first::"):
            first = k.split("::", 1)[1]
    slot = merged["violations"].setdefault("configuration-not-honoured", {"count": 0, "first": None})
    slot["count"] += n
    if slot["first"] is None:
        slot["first"] = {"kind": "configuration-not-honoured", "msg": f"{what}: {first or 'see counters'}", "detail": None,
                         "spec": {"mode": "wiring-probe"}, "trace": None}


def epilogue(tier: str, shard: int, rng: random.Random, fields: List[str], cli: bool = True, api: bool = True) -> Dict[str, int]:
    if shard != 0:
        return {}
    n = 40 if tier == "quick" else 400
    out: Dict[str, int] = {}
    for probe, on in ((cli_wiring_probe, cli), (api_wiring_probe, api)):
        if not on:
            continue
        r = probe(n, rng.randint(0, 10 ** 9), fields)
        first = r.pop("first", None)
        out.update(r)
        if first:
            out["wiring_first::" + first[:400]] = 1
    return out
