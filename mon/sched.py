"""C13 (cron due-ness) and C14 (one-shot delay): real get_task_delay under a controlled clock."""
from __future__ import annotations

import os
import random
import time as _time
from datetime import datetime, timedelta, timezone
from typing import Any, Dict, Iterator, List, Optional, Tuple
from zoneinfo import ZoneInfo

os.environ["TZ"] = "UTC"
_time.tzset()

import pytz  # noqa: E402

import taskiq.cli.scheduler.run as run_mod  # noqa: E402
from taskiq.scheduler.scheduled_task import ScheduledTask  # noqa: E402

from mon.runner import CaseResult, Check, Violation, jhash  # noqa: E402

EPOCH = datetime(1970, 1, 1, tzinfo=timezone.utc)
US = timedelta(microseconds=1)


class Clock:
    """The controlled wall clock: integer microseconds since the epoch (UTC)."""

    us = 0
    source: Any = None  # optional callable returning microseconds (virtual loop)

    @classmethod
    def now_us(cls) -> int:
        if cls.source is not None:
            return cls.source()
        return cls.us


class VDatetime(datetime):
    """datetime whose now()/utcnow() read the controlled clock."""

    @classmethod
    def now(cls, tz: Any = None) -> "VDatetime":  # type: ignore[override]
        Clock_reads[0] += 1
        base = EPOCH + Clock.now_us() * US
        if tz is None:
            # naive local time of the host, as datetime.now() gives it (process TZ, see set_host_tz)
            d = base.astimezone(ZoneInfo(HOST_TZ[0])).replace(tzinfo=None) if HOST_TZ[0] else base.replace(tzinfo=None)
        else:
            d = base.astimezone(tz)
        return cls(d.year, d.month, d.day, d.hour, d.minute, d.second, d.microsecond, tzinfo=d.tzinfo, fold=d.fold)

    @classmethod
    def utcnow(cls) -> "VDatetime":  # type: ignore[override]
        Clock_reads[0] += 1
        d = (EPOCH + Clock.now_us() * US).replace(tzinfo=None)
        return cls(d.year, d.month, d.day, d.hour, d.minute, d.second, d.microsecond)


Clock_reads = [0]
HOST_TZ: List[Optional[str]] = [None]
HOST_ZONES = ["Asia/Tokyo", "America/New_York", "Europe/Berlin", "Asia/Kolkata", "Pacific/Auckland"]


def set_host_tz(zone: Optional[str]) -> None:
    """The time zone of the machine the scheduler runs on (TZ of the process): None = UTC.  Neither due-ness
    of a cron schedule nor the delay of a one-shot may depend on it."""
    HOST_TZ[0] = zone
    os.environ["TZ"] = zone or "UTC"
    _time.tzset()


def install_clock() -> None:
    run_mod.datetime = VDatetime  # type: ignore[attr-defined]


def to_us(dt: datetime) -> int:
    if dt.tzinfo is None:
        dt = dt.replace(tzinfo=timezone.utc)
    return (dt - EPOCH) // US


# ------------------------------------------------------------------------------------
# independent cron matcher (numeric five-field grammar, Vixie day rule)

RANGES = [(0, 59), (0, 23), (1, 31), (1, 12), (0, 6)]


def field_match(expr: str, val: int, lo: int) -> bool:
    for item in expr.split(","):
        if item == "*":
            return True
        if item.startswith("*/"):
            if (val - lo) % int(item[2:]) == 0:
                return True
            continue
        step = 1
        if "/" in item:
            item, s = item.split("/")
            step = int(s)
        if "-" in item:
            a, b = (int(x) for x in item.split("-"))
        else:
            a = b = int(item)
        if a <= val <= b and (val - a) % step == 0:
            return True
    return False


def cron_match(expr: str, local: datetime) -> Tuple[bool, bool]:
    """Returns (match under the standard rule, ambiguous?) for naive/aware local time fields."""
    mi, ho, dom, mon, dow = expr.split(" ")
    wd = local.isoweekday() % 7  # 0 = Sunday
    base = field_match(mi, local.minute, 0) and field_match(ho, local.hour, 0) and field_match(mon, local.month, 1)
    d1 = field_match(dom, local.day, 1)
    d2 = field_match(dow, wd, 0)
    if dom.startswith("*") or dow.startswith("*"):
        return base and d1 and d2, False
    # both day fields restricted: cron (Vixie, and pycron) matches when *either* day field matches
    return base and (d1 or d2), False


def gen_field(rng: random.Random, idx: int, include: Optional[int]) -> str:
    lo, hi = RANGES[idx]
    form = rng.choice(["*", "*", "*/n", "a", "a", "a-b", "a-b/n", "list"])
    if idx >= 2 and rng.random() < 0.4:
        form = "*"

    def single(inc: Optional[int]) -> str:
        f = rng.choice(["a", "a-b", "a-b/n"])
        if f == "a":
            return str(inc if inc is not None else rng.randint(lo, hi))
        if inc is not None:
            a = rng.randint(lo, inc)
            b = rng.randint(inc, hi)
        else:
            a = rng.randint(lo, hi)
            b = rng.randint(a, hi)
        if f == "a-b" or b == a:
            return f"{a}-{b}" if b > a else str(a)
        n = rng.randint(1, max(1, min(15, b - a)))
        if inc is not None:
            # make the step hit inc
            k = inc - a
            divs = [d for d in range(1, 16) if k % d == 0] if k else [n]
            n = rng.choice(divs or [1])
        return f"{a}-{b}/{n}"

    if form == "*":
        return "*"
    if form == "*/n":
        if include is not None:
            k = include - lo
            divs = [d for d in range(1, 31) if k % d == 0] if k else list(range(1, 31))
            return f"*/{rng.choice(divs)}"
        return f"*/{rng.randint(1, 30)}"
    if form == "list":
        items = [single(None) for _ in range(rng.randint(1, 3))]
        items.insert(rng.randint(0, len(items)), single(include))
        return ",".join(items)
    return single(include)


def gen_cron(rng: random.Random, steer_local: Optional[datetime]) -> str:
    vals: List[Optional[int]] = [None] * 5
    if steer_local is not None:
        vals = [steer_local.minute, steer_local.hour, steer_local.day, steer_local.month,
                steer_local.isoweekday() % 7]
    return " ".join(gen_field(rng, i, vals[i]) for i in range(5))


ZONES = ["UTC", "Europe/Berlin", "Europe/London", "America/New_York", "America/Sao_Paulo", "America/St_Johns",
         "Asia/Kolkata", "Asia/Kathmandu", "Asia/Tehran", "Pacific/Chatham", "Australia/Lord_Howe",
         "Australia/Adelaide", "Pacific/Apia", "Africa/Casablanca", "Pacific/Kiritimati", "Etc/GMT+12",
         "America/Havana", "Asia/Gaza"]
_ZI: Dict[str, Any] = {}


def zi(name: str) -> ZoneInfo:
    if name not in _ZI:
        _ZI[name] = ZoneInfo(name)
    return _ZI[name]


def local_for(us: int, offset: Any) -> Tuple[Optional[datetime], Optional[str]]:
    """Oracle-side local time (independent of taskiq): returns (local, skip_reason)."""
    utc = EPOCH + us * US
    if offset is None:
        return utc, None
    if isinstance(offset, (int, float)):
        return utc + timedelta(seconds=offset), None
    loc = utc.astimezone(zi(offset))
    # tz database guard: system tzdata (zoneinfo) vs pytz's bundled database
    p = utc.astimezone(pytz.timezone(offset))
    if p.utcoffset() != loc.utcoffset():
        return None, "tz_db_mismatch"
    return loc, None


_TRANS: Dict[str, List[int]] = {}


def transitions(zone: str) -> List[int]:
    """UTC day starts (us) of days on which the zone's offset changes, 2015-2035."""
    if zone in _TRANS:
        return _TRANS[zone]
    z = zi(zone)
    out = []
    d = datetime(2015, 1, 1, tzinfo=timezone.utc)
    end = datetime(2036, 1, 1, tzinfo=timezone.utc)
    prev = d.astimezone(z).utcoffset()
    while d < end:
        nxt = d + timedelta(days=1)
        off = nxt.astimezone(z).utcoffset()
        if off != prev:
            out.append(to_us(d))
            prev = off
        d = nxt
    _TRANS[zone] = out
    return out


def gen_offset(rng: random.Random) -> Any:
    r = rng.random()
    if r < 0.25:
        return None
    if r < 0.55:
        secs = rng.choice([0, 3600, -3600, 19800, 20700, -12600, 45 * 60, -(9 * 3600 + 30 * 60), 26 * 3600, -26 * 3600,
                           30, -30, 3600 + 30, rng.randint(-26 * 3600, 26 * 3600)])
        return secs
    return rng.choice(ZONES)


class _CaptureSource:
    """Minimal schedule source that keeps what the kicker's scheduling helpers hand over."""

    def __init__(self) -> None:
        self.added: List[ScheduledTask] = []

    async def add_schedule(self, schedule: ScheduledTask) -> None:
        self.added.append(schedule)


_HELPER_BROKER: List[Any] = []


def _via_helper(kind: str, value: Any, offset: Any = None) -> ScheduledTask:
    """Build the ScheduledTask through the public helpers kicker.schedule_by_cron / schedule_by_time
    (CronSpec.to_cron() included) instead of constructing it directly."""
    import asyncio

    from taskiq.kicker import AsyncKicker
    from taskiq.scheduler.scheduled_task import CronSpec

    if not _HELPER_BROKER:
        from mon.args_labels import PlainBroker

        _HELPER_BROKER.append(PlainBroker())
    src = _CaptureSource()
    k = AsyncKicker("t", _HELPER_BROKER[0], {})
    if kind == "cron":
        mi, ho, dom, mon, dow = (int(f) if f.isdigit() else f for f in value.split(" "))  # plain numbers as ints
        spec = CronSpec(minutes=mi, hours=ho, days=dom, months=mon, weekdays=dow, offset=offset)
        coro = k.schedule_by_cron(src, spec)  # type: ignore[arg-type]
    else:
        coro = k.schedule_by_time(src, value)  # type: ignore[arg-type]
    loop = asyncio.new_event_loop()
    try:
        loop.run_until_complete(coro)
    finally:
        loop.close()
    return src.added[0]


def mk_task(cron: str, offset: Any, helper: bool = False) -> ScheduledTask:
    off = offset
    if isinstance(offset, (int, float)):
        off = timedelta(seconds=offset)
    if helper:
        return _via_helper("cron", cron, off)
    return ScheduledTask(task_name="t", labels={}, args=[], kwargs={}, cron=cron, cron_offset=off)


def eval_cron(task: ScheduledTask, us: int) -> Any:
    Clock.us = us
    try:
        return run_mod.get_task_delay(task)
    except Exception as exc:  # noqa: BLE001
        return f"raised {type(exc).__name__}: {exc}"


class C13(Check):
    pid = "C13"
    rule = ("Case = (numeric five-field cron expression from the grammar {*, */n, a, a-b, a-b/n, lists}, offset in "
            "{None, timedelta within +-26 h incl. 30/45-min and 30-s parts, IANA zone incl. Kolkata, Kathmandu, "
            "Chatham, St_Johns, Lord_Howe, Apia, Tehran, Casablanca}, instant). Instants: random 2015-2035 with random "
            "seconds/microseconds, half of the cases steered so that the expression matches; minute-exhaustive sweeps "
            "(all 1440+ minutes) over DST transition days of each zone. Real get_task_delay() under a controlled "
            "clock vs an independent cron matcher on zoneinfo local time (Vixie day rule; when both day fields are "
            "restricted the expression matches when either does, as cron and pycron define it); answer must be 0 or None and identical at "
            "three different seconds of the minute. Zone cases are judged only where zoneinfo and pytz agree on the "
            "offset (system tzdata 2025b vs pytz 2026c), else counted as skipped. Non-trivial: expression has >=2 "
            "restricted fields or a non-None offset; distinct = distinct (expression, offset, minute).")
    floors = {"counters.due_answers": 20000, "counters.not_due_answers": 20000, "counters.dst_day_minutes": 5000,
              "counters.zone_cases": 10000, "counters.due_by_one_day_field_only": 300}
    quick_cases = 16 * 60
    thorough_cases = 16 * 4000
    quick_time = 25.0
    thorough_time = 420.0
    assumptions = [
        "oracle local time comes from zoneinfo (system tzdata); cases where pytz's bundled database disagrees are skipped and counted",
        "only the unambiguous numeric grammar is generated (no names, no 7 for Sunday, no a/n, no star inside lists)",
        "process time zone is UTC, except in the batches that deliberately run with TZ set to another zone (tzset)",
    ]

    def extra_evidence(self, merged: Dict[str, Any]) -> Dict[str, Any]:
        return {"individual_evaluations": merged["events"].get("get_task_delay", 0),
                "note": "evaluations / distinct_nontrivial count batches (one batch = 400 random triples or one "
                        "minute-exhaustive DST-day sweep); individual_evaluations counts get_task_delay() calls judged"}

    def cases(self, rng: random.Random, tier: str, shard: int, nshards: int) -> Iterator[Any]:
        i = 0
        while True:
            i += 1
            if i % 6 == 0:
                zone = rng.choice(ZONES[1:])
                tr = transitions(zone)
                if not tr:
                    continue
                day = rng.choice(tr)
                yield {"mode": "dstday", "zone": zone, "day_us": day, "seed": rng.randint(0, 10 ** 9),
                       "host_tz": rng.choice(HOST_ZONES) if rng.random() < 0.25 else None}
            else:
                yield {"mode": "random", "seed": rng.randint(0, 10 ** 9), "n": 400,
                       "host_tz": rng.choice(HOST_ZONES) if rng.random() < 0.3 else None}

    def run_case(self, spec: Dict[str, Any]) -> CaseResult:
        set_host_tz(spec.get("host_tz"))
        try:
            cr = self._run_case(spec)
        finally:
            set_host_tz(None)
        if spec.get("host_tz"):
            cr.counters["batches_on_non_utc_host"] += 1
        return cr

    def _run_case(self, spec: Dict[str, Any]) -> CaseResult:
        install_clock()
        cr = CaseResult()
        rng = random.Random(spec["seed"])
        sigs = []
        if spec["mode"] == "dstday":
            zone = spec["zone"]
            # local wall-clock hours around the transition are what matters
            exprs = []
            for _ in range(3):
                exprs.append(" ".join([gen_field(rng, 0, None), gen_field(rng, 1, rng.choice([0, 1, 2, 3, 4, 23])), "*", "*", "*"]))
            exprs.append(f"{rng.choice([0, 15, 30, 45])} {rng.choice([0, 1, 2, 3])} * * *")
            exprs.append(gen_cron(rng, None))
            tasks = [(e, mk_task(e, zone)) for e in exprs]
            start = spec["day_us"] - 3 * 3600 * 10 ** 6
            for m in range(0, 30 * 60):
                us = start + m * 60 * 10 ** 6 + rng.randint(0, 59_999_999)
                for e, t in tasks:
                    self._one(cr, e, zone, t, us, rng, check_seconds=(m % 7 == 0))
                cr.counters["dst_day_minutes"] += 1
            sigs.append(("dst", zone, spec["day_us"]))
            cr.nontrivial = True
        else:
            for _ in range(spec["n"]):
                off = gen_offset(rng)
                us = rng.randint(to_us(datetime(2015, 1, 1)), to_us(datetime(2035, 12, 31)))
                steer = rng.random() < 0.5
                loc, skip = local_for(us, off)
                if loc is None:
                    cr.counters["tz_db_mismatch_skipped"] += 1
                    continue
                e = gen_cron(rng, loc if steer else None)
                via_helper = rng.random() < 0.1
                t = mk_task(e, off, helper=via_helper)
                if via_helper:
                    cr.counters["built_via_schedule_by_cron"] += 1
                self._one(cr, e, off, t, us, rng, check_seconds=True)
                if e.split(" ")[4] != "*" and rng.random() < 0.4:
                    # the same schedule at the same calendar minute of other years (a scheduler process that runs for
                    # years / instants evaluated in any order): the weekday differs, month, day, hour and minute do not
                    dt0 = EPOCH + us * US
                    for k_ in rng.sample([-7, -3, -1, 1, 2, 5, 6], 3):
                        try:
                            us2 = to_us(dt0.replace(year=dt0.year + k_))
                        except ValueError:
                            continue  # 29 February
                        self._one(cr, e, off, t, us2, rng, check_seconds=False)
                        cr.counters["same_calendar_minute_other_year"] += 1
                if rng.random() < 0.35:
                    # the same expression under other offsets at the same instant (several schedules
                    # sharing one expression is the normal case in a deployment)
                    others = [None, rng.choice(ZONES), rng.choice(ZONES), rng.choice([3600, -18000, 19800])]
                    rng.shuffle(others)
                    # half of the time the variants also share a user-chosen schedule id (an id re-used for a
                    # re-created schedule): the answer depends on the schedule's fields, not on its id's history
                    sid = f"nightly-{rng.randint(0, 3)}" if rng.random() < 0.5 else None
                    for off2 in others:
                        t2 = mk_task(e, off2)
                        if sid:
                            t2.schedule_id = sid
                            cr.counters["schedule_id_reused"] += 1
                        self._one(cr, e, off2, t2, us, rng, check_seconds=False)
                        cr.counters["same_expr_other_offset"] += 1
                restricted = sum(1 for f in e.split(" ") if f != "*")
                if restricted >= 2 or off is not None:
                    cr.nontrivial = True
                    sigs.append((e, off, us // 60_000_000))
        cr.sig = jhash(sigs)
        cr.counters["clock_reads"] = 0
        cr.trace = {"mode": spec["mode"], "examples": sigs[:3]}
        return cr

    def _one(self, cr: CaseResult, e: str, off: Any, t: ScheduledTask, us: int, rng: random.Random, check_seconds: bool) -> None:
        loc, skip = local_for(us, off)
        if loc is None:
            cr.counters["tz_db_mismatch_skipped"] += 1
            return
        want, amb = cron_match(e, loc)
        got = eval_cron(t, us)
        cr.events["get_task_delay"] += 1
        f_ = e.split(" ")
        if not f_[2].startswith("*") and not f_[4].startswith("*") and want:
            if field_match(f_[2], loc.day, 1) != field_match(f_[4], loc.isoweekday() % 7, 0):
                cr.counters["due_by_one_day_field_only"] += 1  # the OR of the two day fields decides
        if isinstance(off, str):
            cr.counters["zone_cases"] += 1
        if got not in (0, None) or isinstance(got, bool):
            cr.violations.append(Violation("bad-answer", f"cron {e!r} offset {off!r}: get_task_delay returned {got!r}"))
            return
        due = got == 0
        if due:
            cr.counters["due_answers"] += 1
        else:
            cr.counters["not_due_answers"] += 1
        if due != want and not amb:
            cr.violations.append(Violation(
                "cron-due-wrong",
                f"cron {e!r} offset {off!r} at {(EPOCH + us * US).isoformat()} (local {loc.isoformat()}): taskiq says {'due' if due else 'not due'}, oracle says {'due' if want else 'not due'}",
                {"cron": e, "offset": off, "us": us}))
        if amb:
            cr.counters["ambiguous_day_rule_accepted"] += 1
        if check_seconds:
            shift = int(off * 1_000_000) if isinstance(off, (int, float)) else 0
            base = us - (us + shift) % 60_000_000  # start of the minute of the *shifted* wall clock
            for s_us in (0, rng.randint(1, 59_999_998), 59_999_999):
                g2 = eval_cron(t, base + s_us)
                cr.events["get_task_delay"] += 1
                if (g2 == 0) != due:
                    cr.violations.append(Violation(
                        "depends-on-seconds", f"cron {e!r} offset {off!r}: answer differs within the minute at +{s_us}us"))
                    break

    def selftest(self) -> List[str]:
        f = []
        d = datetime(2024, 2, 29, 12, 30)  # Thursday
        checks = [("30 12 29 2 *", True), ("*/15 */6 * * 4", True), ("*/7 * * * *", False), ("30 12 1 * 4", True),
                  ("30 12 1 * 5", False), ("0-40/10 12 * * *", True), ("31,30 12 * * 0", False), ("* * */2 * *", True)]
        for e, w in checks:
            if cron_match(e, d)[0] != w:
                f.append(f"cron_match({e}) != {w}")
        return f


# ------------------------------------------------------------------------------------
# C14


def gen_tz(rng: random.Random) -> Any:
    r = rng.random()
    if r < 0.25:
        return None
    if r < 0.4:
        return "utc"
    if r < 0.6:
        return ("fixed", rng.choice([0, 3600, -3600, 19800, 20700, -34200, 50400, -43200, 30, 12345]))
    if r < 0.8:
        return ("zi", rng.choice(ZONES))
    return ("pytz", rng.choice(ZONES))


def mk_time(us: int, tzspec: Any) -> datetime:
    utc = EPOCH + us * US
    if tzspec is None:
        return utc.replace(tzinfo=None)
    if tzspec == "utc":
        return utc.astimezone(pytz.UTC) if us % 2 else utc
    kind, arg = tzspec
    if kind == "fixed":
        return utc.astimezone(timezone(timedelta(seconds=arg)))
    if kind == "zi":
        return utc.astimezone(zi(arg))
    return utc.astimezone(pytz.timezone(arg))


def fall_back_transitions(zone: str) -> List[Tuple[int, int]]:
    """(transition instant us, size of the repeated interval us) for offset decreases of the zone."""
    out = []
    z = zi(zone)
    for day in transitions(zone):
        lo, hi = day, day + 86400 * 10 ** 6
        o_lo = (EPOCH + lo * US).astimezone(z).utcoffset()
        o_hi = (EPOCH + hi * US).astimezone(z).utcoffset()
        if o_lo is None or o_hi is None or o_hi >= o_lo:
            continue
        while hi - lo > 1:
            mid = (lo + hi) // 2
            if (EPOCH + mid * US).astimezone(z).utcoffset() == o_lo:
                lo = mid
            else:
                hi = mid
        out.append((hi, int((o_lo - o_hi).total_seconds() * 10 ** 6)))
    return out


_FB: Dict[str, List[Tuple[int, int]]] = {}


class C14(Check):
    pid = "C14"
    rule = ("Case = (now with microsecond resolution, target time T = now + delta, T naive (=UTC) / UTC / fixed "
            "offset / zoneinfo zone / pytz zone). Deltas are boundary-biased: +-1us around now, around the next minute "
            "boundary B and around the horizon B+1s, microsecond remainders, whole seconds, +-2 days; now biased to "
            "xx:59.999999, xx:00.000000 and random. Real get_task_delay() under a controlled clock vs exact integer "
            "microsecond arithmetic: T<=now => 0; T>B+1s => None; else int d with T <= now+d < T+1s. Non-trivial: "
            "|T-now| within 62 s (decision region); distinct = distinct (now, T, zone kind).")
    floors = {"counters.immediate": 5000, "counters.deferred": 5000, "counters.delayed": 10000, "counters.horizon_edge": 500}
    quick_cases = 16 * 40
    thorough_cases = 16 * 4000
    quick_time = 25.0
    thorough_time = 300.0
    assumptions = ["process time zone is UTC, except in the batches that deliberately run with TZ set to another zone (tzset)",
                   "aware T compared by its own tzinfo.utcoffset (as the statement says: as instants)"]

    def extra_evidence(self, merged: Dict[str, Any]) -> Dict[str, Any]:
        return {"individual_evaluations": merged["events"].get("get_task_delay", 0),
                "note": "evaluations / distinct_nontrivial count batches of 500 (now, T, zone) triples; "
                        "individual_evaluations counts get_task_delay() calls judged"}

    def _fold_pairs(self, cr: CaseResult, rng: random.Random) -> None:
        """Targets inside a repeated hour (end of DST): the same wall-clock time with fold=0 and fold=1 are two
        different instants; both are evaluated back to back, in both orders."""
        for _ in range(6):
            zone = rng.choice(["Europe/Berlin", "America/New_York", "Australia/Lord_Howe", "America/St_Johns", "Europe/London"])
            if zone not in _FB:
                _FB[zone] = fall_back_transitions(zone)
            if not _FB[zone]:
                continue
            t_tr, width = rng.choice(_FB[zone])
            inside = rng.randint(1, width - 1)
            first, second = t_tr - width + inside, t_tr + inside  # same wall time, fold 0 / fold 1
            order = [first, second] if rng.random() < 0.5 else [second, first]
            for T in order:
                tt = (EPOCH + T * US).astimezone(zi(zone))
                for now in (T - rng.choice([5, 20, 40]) * 10 ** 6 - rng.randint(0, 999_999), T + rng.randint(0, 10 ** 6)):
                    task = ScheduledTask(task_name="t", labels={}, args=[], kwargs={}, time=tt)
                    Clock.us = now
                    try:
                        got = run_mod.get_task_delay(task)
                    except Exception as exc:  # noqa: BLE001
                        got = f"raised {type(exc).__name__}"
                    cr.events["get_task_delay"] += 1
                    cr.counters["fold_pair_evaluations"] += 1
                    B = now - now % 60_000_000 + 60_000_000
                    desc = f"now={(EPOCH + now * US).isoformat()} T={tt.isoformat()} fold={tt.fold} ({zone}) -> {got!r}"
                    if T <= now:
                        if got != 0 or isinstance(got, bool):
                            cr.violations.append(Violation("past-not-immediate", desc))
                    elif T > B + 1_000_000:
                        if got is not None:
                            cr.violations.append(Violation("beyond-horizon-scheduled", desc))
                    elif type(got) is not int or not (T <= now + got * 1_000_000 < T + 1_000_000):
                        cr.violations.append(Violation("delay-wrong-in-repeated-hour", desc))

    def cases(self, rng: random.Random, tier: str, shard: int, nshards: int) -> Iterator[Any]:
        while True:
            yield {"seed": rng.randint(0, 10 ** 9), "n": 500, "host_tz": rng.choice(HOST_ZONES) if rng.random() < 0.3 else None}

    def run_case(self, spec: Dict[str, Any]) -> CaseResult:
        set_host_tz(spec.get("host_tz"))
        try:
            cr = self._run_case(spec)
        finally:
            set_host_tz(None)
        if spec.get("host_tz"):
            cr.counters["batches_on_non_utc_host"] += 1
        return cr

    def _run_case(self, spec: Dict[str, Any]) -> CaseResult:
        install_clock()
        cr = CaseResult()
        rng = random.Random(spec["seed"])
        sigs = []
        M = 60_000_000
        for _ in range(spec["n"]):
            base = rng.randint(to_us(datetime(2015, 1, 1)), to_us(datetime(2035, 12, 31)))
            base -= base % M
            r = rng.random()
            if r < 0.2:
                now = base + M - 1 - rng.choice([0, 0, 1, 999, 999_999])
            elif r < 0.35:
                now = base + rng.choice([0, 1, 999_999, 1_000_000])
            else:
                now = base + rng.randint(0, M - 1)
            B = now - now % M + M
            r = rng.random()
            if r < 0.2:
                T = now + rng.choice([-1, 0, 1, -1_000_000, 1_000_000, 999_999, 1_000_001, -999_999])
            elif r < 0.4:
                T = B + 1_000_000 + rng.choice([-1, 0, 1, -1_000_000, 1_000_000, -500_000, 2])
            elif r < 0.55:
                T = B + rng.choice([-1, 0, 1, 500_000, 999_999])
            elif r < 0.8:
                T = now + rng.randint(-2 * M, 2 * M)
            elif r < 0.9:
                T = now + rng.randint(0, 61) * 1_000_000 + rng.choice([0, 0, 1, -1, 500_000])
            else:
                T = now + rng.randint(-2 * 86400 * 10 ** 6, 2 * 86400 * 10 ** 6)
            tzs = gen_tz(rng)
            tt = mk_time(T, tzs)
            if rng.random() < 0.05:
                task = _via_helper("time", tt)
                cr.counters["built_via_schedule_by_time"] += 1
            elif rng.random() < 0.15:
                # a cron_offset on a one-shot schedule has no meaning for its target time
                task = ScheduledTask(task_name="t", labels={}, args=[], kwargs={}, time=tt,
                                     cron_offset=rng.choice([timedelta(hours=3), timedelta(hours=-2, minutes=-30), "Asia/Kolkata"]))
                cr.counters["oneshot_with_cron_offset"] += 1
            else:
                task = ScheduledTask(task_name="t", labels={}, args=[], kwargs={}, time=tt)
            Clock.us = now
            try:
                got = run_mod.get_task_delay(task)
            except Exception as exc:  # noqa: BLE001
                got = f"raised {type(exc).__name__}: {exc}"
            cr.events["get_task_delay"] += 1
            T_eff = to_us(task.time)  # what the schedule actually holds (pydantic keeps datetime as is)
            if T_eff != T:
                cr.violations.append(Violation("schedule-time-altered", f"the schedule holds time {task.time!r}, not the target time that was given"))
                continue
            if abs(T - (B + 1_000_000)) <= 1_000_000:
                cr.counters["horizon_edge"] += 1
            desc = f"now={(EPOCH + now * US).isoformat()} T={tt.isoformat()} ({tzs}) -> {got!r}"
            if T <= now:
                cr.counters["immediate"] += 1
                if got != 0 or isinstance(got, bool):
                    cr.violations.append(Violation("past-not-immediate", desc))
            elif T > B + 1_000_000:
                cr.counters["deferred"] += 1
                if got is not None:
                    cr.violations.append(Violation("beyond-horizon-scheduled", desc))
            else:
                cr.counters["delayed"] += 1
                if type(got) is not int:
                    cr.violations.append(Violation("delay-not-int", desc))
                elif not (T <= now + got * 1_000_000 < T + 1_000_000):
                    kind = "sent-early" if now + got * 1_000_000 < T else "sent-late"
                    cr.violations.append(Violation(kind, desc + f" (now+d-T = {now + got * 1_000_000 - T} us)"))
            if abs(T - now) <= 62 * 1_000_000:
                cr.nontrivial = True
                sigs.append((now, T, tzs if not isinstance(tzs, tuple) else tzs[0]))
            if rng.random() < 0.25:
                # the answer is a function of (schedule, now): the same schedule evaluated again a moment later
                # (polls of two minutes both see a one-shot that is not yet removed; an id re-used for a new time)
                # (also a moment *earlier*: a clock that is stepped back, two schedulers' evaluations in either order)
                now2 = now + rng.choice([0, 1, 250_000, 1_000_000, 2_500_000, -1, -250_000, -1_000_000, -3_000_000, -4_900_000])
                task2 = task
                if rng.random() < 0.5:
                    T2 = T + rng.choice([0, 3_000_000, 20_000_000])
                    task2 = ScheduledTask(task_name="t", labels={}, args=[], kwargs={}, time=mk_time(T2, tzs), schedule_id=task.schedule_id)
                else:
                    T2 = T
                Clock.us = now2
                try:
                    got2: Any = run_mod.get_task_delay(task2)
                except Exception as exc:  # noqa: BLE001
                    got2 = f"raised {type(exc).__name__}: {exc}"
                cr.events["get_task_delay"] += 1
                cr.counters["re_evaluations"] += 1
                B2 = now2 - now2 % M + M
                desc2 = f"second evaluation of schedule id {task.schedule_id!r}: now={(EPOCH + now2 * US).isoformat()} T={(EPOCH + T2 * US).isoformat()} -> {got2!r} (first: now={(EPOCH + now * US).isoformat()} -> {got!r})"
                if T2 <= now2:
                    ok = got2 == 0 and not isinstance(got2, bool)
                elif T2 > B2 + 1_000_000:
                    ok = got2 is None
                else:
                    ok = type(got2) is int and T2 <= now2 + got2 * 1_000_000 < T2 + 1_000_000
                if not ok:
                    cr.violations.append(Violation("answer-depends-on-history", desc2))
        self._fold_pairs(cr, rng)
        cr.sig = jhash(sigs)
        cr.trace = {"examples": [(EPOCH + a * US).isoformat() + " / " + (EPOCH + b * US).isoformat() + f" / {c}" for a, b, c in sigs[:3]]}
        return cr
