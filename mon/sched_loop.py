"""C15 (scheduler loop) and C16 (scheduled send payload / source callbacks / label source)."""
from __future__ import annotations

import asyncio
import sys
import copy
import random
from collections import Counter, defaultdict
from datetime import datetime, timedelta, timezone
from typing import Any, Dict, Iterator, List, Optional

from taskiq import AsyncBroker, ScheduleSource, TaskiqScheduler
from taskiq.exceptions import ScheduledTaskCancelledError
from taskiq.message import BrokerMessage
from taskiq.schedule_sources import LabelScheduleSource
from taskiq.scheduler.scheduled_task import ScheduledTask

import taskiq.cli.scheduler.run as run_mod

from mon import sched as S
from mon.args_labels import PlainBroker, jsonable, strict_eq
from mon.labels_check import dec_label, enc_label, gen_label_value, labels_eq
from mon.runner import CaseResult, Check, Violation, jhash
from mon.vloop import VirtualDeadlock, run_virtual

M = 60_000_000


class SourceBoom(Exception):
    pass


class KickBoom(Exception):
    pass


class RecSource(ScheduleSource):
    def __init__(self, idx: int, rec: "Rec", spec: Dict[str, Any]) -> None:
        self.idx = idx
        self.rec = rec
        self.spec = spec
        self.items: List[ScheduledTask] = []
        self.raw_time: Dict[str, Any] = {}  # schedule id -> the time as it was declared (by_time sources)
        self.calls = 0

    async def get_schedules(self) -> List[ScheduledTask]:
        n = self.calls
        self.calls += 1
        self.rec.add("poll", src=self.idx, n=n)
        lat = (self.spec.get("slow_calls") or {}).get(str(n), self.spec.get("lat", 0))
        if lat:
            await asyncio.sleep(lat)
        if n in self.spec.get("fail_calls", []):
            self.rec.add("poll_fail", src=self.idx, n=n)
            kind = (self.spec.get("fail_exc") or ["SourceBoom"])[n % len(self.spec.get("fail_exc") or ["SourceBoom"])]
            if kind == "TimeoutError":
                raise TimeoutError  # bare, no message (what asyncio.wait_for raises)
            if kind == "ConnectionError":
                raise ConnectionError
            if kind == "KeyError":
                raise KeyError("k")
            raise SourceBoom(f"source {self.idx} call {n}")
        listed = list(self.items)
        self.rec.add("poll_ok", src=self.idx, n=n, ids=[s.schedule_id for s in listed])
        if self.spec.get("by_ref"):
            return self.items  # a simple source hands out its own list (and edits it in post_send)
        if self.spec.get("by_time"):
            # a source that keeps declarations and builds the schedule objects anew for every listing (what the bundled
            # label source does)
            return [s_ if s_.time is None else ScheduledTask(task_name=s_.task_name, labels={}, args=[], kwargs={},
                                                             schedule_id=s_.schedule_id, time=self.raw_time[s_.schedule_id])
                    for s_ in listed]
        return listed

    async def add_schedule(self, schedule: ScheduledTask) -> None:
        # (what the kicker's schedule_by_time / schedule_by_cron call)
        if getattr(self, "pending", None) is not None:
            name, raw = self.pending
            self.rec.alias[schedule.schedule_id] = name
            self.raw_time[schedule.schedule_id] = raw
        self.items.append(schedule)
        self.rec.add("added", src=self.idx, sid=schedule.schedule_id)

    def pre_send(self, task: ScheduledTask) -> Any:
        self.rec.add("pre_send", src=self.idx, sid=task.schedule_id)
        if task.schedule_id in self.spec.get("cancel", []):
            if self.spec.get("pre_async"):
                async def _c() -> None:
                    raise ScheduledTaskCancelledError
                return _c()
            raise ScheduledTaskCancelledError
        if self.spec.get("pre_async"):
            return asyncio.sleep(0)
        return None

    def post_send(self, task: ScheduledTask) -> Any:
        if self.spec.get("post_async"):
            # a source that talks to a store: the hook is a coroutine (its work happens when it is awaited)
            async def _p() -> None:
                await asyncio.sleep(0)
                self._post(task)
            return _p()
        self._post(task)
        return None

    def _post(self, task: ScheduledTask) -> None:
        self.rec.add("post_send", src=self.idx, sid=task.schedule_id)
        if task.time is not None and task.cron is None:
            if self.spec.get("by_time"):
                # ... and finds the declaration of a one-shot it is told was sent by its time (the bundled label source's rule)
                cands = [s_ for s_ in self.items if s_.cron is None and self.raw_time.get(s_.schedule_id) == task.time]
                pick = next((s_ for s_ in cands if s_.schedule_id == task.schedule_id), cands[0] if cands else None)
                if pick is not None:
                    self.items = [s_ for s_ in self.items if s_ is not pick]
            elif self.spec.get("by_ref"):
                for s_ in list(self.items):
                    if s_.schedule_id == task.schedule_id:
                        self.items.remove(s_)
            else:
                self.items = [s for s in self.items if s.schedule_id != task.schedule_id]


class RecBroker(AsyncBroker):
    def __init__(self, rec: "Rec", spec: Dict[str, Any]) -> None:
        super().__init__()
        self.rec = rec
        self.spec = spec
        self.n = 0
        self.sent: List[BrokerMessage] = []

    async def kick(self, message: BrokerMessage) -> None:
        n = self.n
        self.n += 1
        sid = message.labels.get("schedule_id")
        self.rec.add("kick", sid=sid, n=n)
        self.sent.append(message)
        lat = self.spec.get("kick_lat", {}).get(str(n), 0)
        if lat:
            await asyncio.sleep(lat)
        if n in self.spec.get("kick_fail", []):
            self.rec.add("kick_fail", sid=sid, n=n)
            raise KickBoom(str(n))
        self.rec.add("kick_done", sid=sid, n=n)

    async def listen(self) -> Any:  # type: ignore[override]
        if False:
            yield b""


class Rec:
    def __init__(self) -> None:
        self.ev: List[Dict[str, Any]] = []
        # schedule ids generated by the library (schedules created through a kicker) -> the scenario's name for them
        self.alias: Dict[str, str] = {}

    def add(self, kind: str, **data: Any) -> None:
        if self.alias:
            if data.get("sid") in self.alias:
                data["sid"] = self.alias[data["sid"]]
            if "ids" in data:
                data["ids"] = [self.alias.get(x, x) for x in data["ids"]]
        e = {"i": len(self.ev), "us": S.Clock.now_us(), "k": kind}
        e.update(data)
        self.ev.append(e)


# ------------------------------------------------------------------------------------
# C15


CRONS = ["* * * * *", "*/2 * * * *", "*/3 * * * *", "1-59/2 * * * *", "*/5 * * * *", "0,15,30,45 * * * *",
         "*/7 * * * *", "10-20 * * * *"]


BAD_CRONS = ["* * * *", "bad", "* * * * * *", "", "*/x * * * *", "*/0 * * * *", "0 */0 * * *", "every minute"]


def gen_c15_spec(rng: random.Random, minutes_max: int) -> Dict[str, Any]:
    base = rng.randint(S.to_us(datetime(2020, 1, 1)), S.to_us(datetime(2030, 1, 1)))
    base -= base % M
    start = base + rng.choice([0, 1, 500_000, 30_000_000, 59_000_000, 59_900_000, 59_999_999, rng.randint(0, M - 1)])
    minutes = rng.randint(4, minutes_max)
    nsrc = rng.randint(1, 3)
    sources = []
    sid = 0
    for si in range(nsrc):
        items = []
        for _ in range(rng.randint(0, 3)):
            expr = rng.choice(CRONS)
            if rng.random() < 0.4:
                loc = S.EPOCH + (start + rng.randint(0, minutes) * M) * S.US
                expr = S.gen_cron(rng, loc)
            off = rng.choice([None, None, 3600, -19800, 1800, "Asia/Kolkata", "Europe/Berlin", "Asia/Kathmandu"])
            it: Dict[str, Any] = {"id": f"c{sid}", "cron": expr, "offset": off, "add_at": 0.0}
            if rng.random() < 0.3:
                it["add_at"] = round(rng.random() * minutes * 60, 3)
            if rng.random() < 0.2:
                it["remove_at"] = round(it["add_at"] + rng.random() * minutes * 60, 3)
            items.append(it)
            sid += 1
        for _ in range(rng.randint(0, 3)):
            r = rng.random()
            if r < 0.35:
                # around a minute boundary (+- 2 s)
                b = (start - start % M) + rng.randint(1, minutes) * M
                T = b + rng.choice([-2_000_000, -1_000_000, -1, 0, 1, 500_000, 999_999, 1_000_000, 1_000_001, 2_000_000])
            elif r < 0.5:
                T = start - rng.randint(0, 3 * M)  # already past
            else:
                T = start + rng.randint(0, minutes * M)
            add_at = 0.0
            if rng.random() < 0.35:
                add_at = round(rng.random() * minutes * 60, 3)
            items.append({"id": f"o{sid}", "time_us": T, "tz": rng.choice([None, "utc", "zi"]), "add_at": add_at})
            sid += 1
        ones = [it_ for it_ in items if "time_us" in it_]
        if ones and rng.random() < 0.15:
            # two one-shot schedules with the same time (say, two calls of one task booked for the same instant)
            twin = dict(rng.choice(ones))
            twin["id"] = f"o{sid}"
            sid += 1
            items.append(twin)
        if rng.random() < 0.15:
            # a schedule whose expression is not a cron expression (a typo in a stored schedule): it is never due, and
            # the other schedules of the source and later polls are not affected
            items.insert(rng.randint(0, len(items)), {"id": f"x{sid}", "cron": rng.choice(BAD_CRONS), "offset": rng.choice([None, None, 3600, "Europe/Berlin"]),
                                                     "add_at": 0.0, "bad": True})
            sid += 1
        npolls = minutes + 2
        src: Dict[str, Any] = {"items": items, "lat": rng.choice([0, 0, 0.001, 0.2, 0.9]), "post_async": rng.random() < 0.3,
                               "pre_async": rng.random() < 0.3, "by_ref": rng.random() < 0.3}
        if not src["by_ref"] and rng.random() < 0.3:
            src["by_time"] = True
        if src["by_ref"]:
            # (what such a source "listed" is whatever its list holds when the scheduler reads it: no edits between polls)
            for it_ in items:
                it_["add_at"] = 0.0
                it_.pop("remove_at", None)
        if rng.random() < 0.3:
            src["fail_calls"] = sorted(rng.sample(range(npolls), rng.randint(1, min(3, npolls))))
            src["fail_exc"] = [rng.choice(["SourceBoom", "TimeoutError", "ConnectionError", "KeyError"]) for _ in range(3)]
        sources.append(src)
    nk = 6 * minutes + 10
    spec: Dict[str, Any] = {"start_us": start, "minutes": minutes, "sources": sources,
                            "kick_lat": {}, "kick_fail": []}
    if rng.random() < 0.5:
        for k in rng.sample(range(nk), rng.randint(1, 6)):
            spec["kick_lat"][str(k)] = rng.choice([0.001, 0.3, 0.9, 5.0, 50.0, 70.0])
    if rng.random() < 0.3:
        spec["kick_fail"] = sorted(rng.sample(range(nk), rng.randint(1, 4)))
    if rng.random() < 0.25:
        spec["host_tz"] = rng.choice(S.HOST_ZONES + ["Asia/Kathmandu", "Australia/Lord_Howe"])
    r = rng.random()
    if r < 0.2:
        spec["via_api"] = True
    elif r < 0.35:
        spec["via_cli"] = True
        spec["skip_first_run"] = rng.random() < 0.5
    if rng.random() < 0.3:
        spec["sleep_overshoot"] = rng.choice([0.01, 0.05, 0.2, 0.3])
    if rng.random() < 0.12:
        spec["twin_scheduler"] = True
    if rng.random() < 0.2:
        # schedules created at run time through schedule_by_time / schedule_by_cron of one kicker object
        for src_ in sources:
            if src_.get("by_ref"):
                continue
            for it_ in src_["items"]:
                if not it_.get("bad") and it_.get("offset") is None and rng.random() < 0.7:
                    it_["via_kicker"] = True
                    it_.pop("remove_at", None)
    if rng.random() < 0.2:
        spec["task_start_lat"] = rng.choice([0.001, 0.05, 0.2])  # send tasks get to run that much after they were created
        if rng.random() < 0.5:
            # ... and the scheduler is started in the last instants of a minute: what it finds due then is sent although the
            # send task gets to run in the next minute
            spec["start_us"] = base + 60_000_000 - int(spec["task_start_lat"] * 1_000_000 * rng.choice([0.5, 0.9, 0.1]))
    if rng.random() < 0.15:
        # a listing that takes longer than a minute (a store that hangs): the next evaluation is more than a minute after
        # the previous one
        src_ = rng.choice(sources)
        src_["slow_calls"] = {str(rng.randint(0, max(0, minutes - 2))): rng.choice([61.0, 75.5, 119.0, 130.0])}
    return spec


def gen_c15_long(rng: random.Random) -> Dict[str, Any]:
    """One scheduler process running for more than a day: expressions restricted by day-of-month, month or
    weekday match at a wall-clock time on one day and not at the same time on the next."""
    day = datetime(rng.randint(2021, 2029), rng.randint(1, 12), rng.randint(1, 27), tzinfo=timezone.utc)
    start = S.to_us(day) + rng.choice([23 * 60 + 58, 12 * 60, 0, 6 * 60 + 30]) * M + rng.choice([500_000, 30_000_000, 59_900_000])
    minutes = rng.randint(1445, 2000)
    items: List[Dict[str, Any]] = []
    for i in range(rng.randint(2, 4)):
        at = S.EPOCH + (start + rng.randint(1, minutes - 1) * M) * S.US
        kind = rng.choice(["dom", "dow", "mon", "hour", "hourly"])
        mi, ho = at.minute, at.hour
        if kind == "dom":
            expr = f"{mi} {ho} {at.day} * *"
        elif kind == "dow":
            expr = f"{mi} {ho} * * {at.isoweekday() % 7}"
        elif kind == "mon":
            expr = f"{mi} {ho} {at.day} {at.month} *"
        elif kind == "hourly":
            expr = f"{mi} * * * *"  # the same minute of every hour
        else:
            expr = f"{mi} {ho} * * *"
        if rng.random() < 0.3 and kind != "hourly":
            expr = expr.replace(f"{mi} ", "*/30 ", 1)
        items.append({"id": f"c{i}", "cron": expr, "offset": rng.choice([None, None, 3600, "Asia/Kolkata"]), "add_at": 0.0})
    return {"start_us": start, "minutes": minutes, "sources": [{"items": items, "lat": 0}], "kick_lat": {}, "kick_fail": [], "long": True}


def run_c15(spec: Dict[str, Any]) -> "tuple[Rec, Dict[str, Any]]":
    S.install_clock()
    rec = Rec()
    info: Dict[str, Any] = {"loop_exc": None}

    async def main(loop: Any) -> None:
        S.Clock.source = lambda: spec["start_us"] + int(round(loop.time() * 1_000_000))
        broker = RecBroker(rec, spec)
        sources = [RecSource(i, rec, s) for i, s in enumerate(spec["sources"])]
        from taskiq.kicker import AsyncKicker

        shared_kicker: Any = AsyncKicker("tk", broker, {})
        for src, ss in zip(sources, spec["sources"]):
            for it in ss["items"]:
                if "cron" in it:
                    off = it["offset"]
                    if isinstance(off, (int, float)):
                        off = timedelta(seconds=off)
                    st = ScheduledTask(task_name="tk", labels={}, args=[], kwargs={}, schedule_id=it["id"],
                                       cron=it["cron"], cron_offset=off)
                else:
                    tzs = {"zi": ("zi", "Asia/Kolkata"), "utc": "utc", None: None}[it["tz"]]
                    st = ScheduledTask(task_name="tk", labels={}, args=[], kwargs={}, schedule_id=it["id"],
                                       time=S.mk_time(it["time_us"], tzs))
                    src.raw_time[it["id"]] = S.mk_time(it["time_us"], tzs)

                def _add(src: RecSource = src, st: ScheduledTask = st, it: Dict[str, Any] = it) -> None:
                    if it.get("via_kicker"):
                        # created through the scheduling helpers of one kicker object that the application keeps
                        # (the library generates the schedule id)
                        async def _k() -> None:
                            src.pending = (it["id"], src.raw_time.get(it["id"]))  # type: ignore[attr-defined]
                            try:
                                if st.cron is not None:
                                    await shared_kicker.schedule_by_cron(src, st.cron)
                                else:
                                    await shared_kicker.schedule_by_time(src, src.raw_time[it["id"]])
                            finally:
                                src.pending = None  # type: ignore[attr-defined]
                        asyncio.ensure_future(_k())
                        return
                    src.items.append(st)
                    rec.add("added", src=src.idx, sid=st.schedule_id)

                def _remove(src: RecSource = src, st: ScheduledTask = st) -> None:
                    src.items = [x for x in src.items if x.schedule_id != st.schedule_id]
                    rec.add("removed", src=src.idx, sid=st.schedule_id)

                if it["add_at"] <= 0:
                    _add()
                else:
                    loop.call_at(it["add_at"], _add)
                if it.get("remove_at") is not None:
                    loop.call_at(it["remove_at"], _remove)
        scheduler = TaskiqScheduler(broker, sources)  # type: ignore[arg-type]
        t_twin: Any = None
        if spec.get("twin_scheduler"):
            # another scheduler (its own broker, its own source with an every-minute schedule) runs its loop in the same
            # process, and gets to tick first: this scheduler's schedules are due as if it were alone
            class _TwinSource(ScheduleSource):
                async def get_schedules(self) -> List[ScheduledTask]:
                    return [ScheduledTask(task_name="twin", labels={}, args=[], kwargs={}, schedule_id="twin-every-minute", cron="* * * * *")]

            t_twin = asyncio.ensure_future(run_mod.run_scheduler_loop(TaskiqScheduler(PlainBroker(), [_TwinSource()])))
            info["twin"] = t_twin
        if spec.get("via_api"):
            from taskiq.api import run_scheduler_task  # the programmatic entry point

            t = asyncio.ensure_future(run_scheduler_task(scheduler, run_startup=False))
        elif spec.get("via_cli"):
            # what `taskiq scheduler ...` runs: source start-up, optionally --skip-first-run, then the loop
            from taskiq.cli.scheduler.args import SchedulerArgs

            t = asyncio.ensure_future(run_mod.run_scheduler(SchedulerArgs(
                scheduler=scheduler, modules=[], configure_logging=False, log_level="WARNING",
                skip_first_run=bool(spec.get("skip_first_run")))))
        else:
            t = asyncio.ensure_future(run_mod.run_scheduler_loop(scheduler))
        done, _ = await asyncio.wait({t}, timeout=spec["minutes"] * 60 + 0.75)
        rec.add("end")
        if t_twin is not None:
            t_twin.cancel()
        if done:
            info["loop_exc"] = repr(t.exception()) if not t.cancelled() else "cancelled"
        else:
            t.cancel()

    S.set_host_tz(spec.get("host_tz"))  # the machine's local zone: the loop reads the naive local clock
    real_asyncio = run_mod.asyncio
    if spec.get("sleep_overshoot") or spec.get("task_start_lat"):
        # a real event loop wakes a sleeper a little late: the loop's own end-of-tick sleep returns `overshoot` seconds
        # after the requested instant (the delayed sends are left exact, they have their own 1 s allowance); and a task
        # it creates gets to run a little later (a busy loop) - `task_start_lat`
        over = float(spec.get("sleep_overshoot") or 0.0)
        start_lat = float(spec.get("task_start_lat") or 0.0)

        class _LoopProxy:
            def __init__(self, real: Any) -> None:
                self._real = real

            def __getattr__(self, name: str) -> Any:
                return getattr(self._real, name)

            def create_task(self, coro: Any, **kw: Any) -> Any:
                async def _late() -> Any:
                    await real_asyncio.sleep(start_lat)
                    return await coro
                return self._real.create_task(_late(), **kw)

        class _AsyncioProxy:
            def __getattr__(self, name: str) -> Any:
                return getattr(real_asyncio, name)

            @staticmethod
            def get_event_loop() -> Any:
                lp = real_asyncio.get_event_loop()
                if start_lat and sys._getframe(1).f_code.co_name == "run_scheduler_loop":
                    return _LoopProxy(lp)
                return lp

            @staticmethod
            async def sleep(delay: float, result: Any = None) -> Any:
                if over and sys._getframe(1).f_code.co_name == "run_scheduler_loop":
                    delay = max(0.0, delay) + over
                return await real_asyncio.sleep(delay, result)

        run_mod.asyncio = _AsyncioProxy()  # type: ignore[attr-defined]
    try:
        run_virtual(main, step_budget=3_000_000)
    except VirtualDeadlock as exc:
        info["loop_exc"] = f"deadlock {exc}"
    finally:
        run_mod.asyncio = real_asyncio  # type: ignore[attr-defined]
        S.Clock.source = None
        S.set_host_tz(None)
    return rec, info


def oracle_c15(rec: Rec, info: Dict[str, Any], spec: Dict[str, Any]) -> "tuple[List[Violation], Counter]":
    v: List[Violation] = []
    cnt: Counter = Counter()
    ev = rec.ev
    start = spec["start_us"]
    end_us = [e for e in ev if e["k"] == "end"][0]["us"] if any(e["k"] == "end" for e in ev) else None
    if info["loop_exc"] is not None:
        v.append(Violation("loop-stopped", f"run_scheduler_loop ended: {info['loop_exc']}"))
    if end_us is None:
        return v, cnt
    # ---- (1) poll instants per source
    expected_polls = [start]
    b = start - start % M + M
    if spec.get("skip_first_run"):
        # --skip-first-run: nothing is listed or sent before the first minute boundary after the start
        expected_polls = []
        early = [e for e in ev if e["k"] in ("poll", "kick") and e["us"] < b - 1000]
        cnt["skip_first_run_checked"] += 1
        if early:
            v.append(Violation("first-run-not-skipped", f"--skip-first-run: {early[0]['k']} at +{(early[0]['us'] - start) / 1e6}s, before the first minute boundary at +{(b - start) / 1e6}s"))
    while b <= end_us:
        expected_polls.append(b)
        b += M
    polls: Dict[int, List[Dict[str, Any]]] = defaultdict(list)
    for e in ev:
        if e["k"] == "poll":
            polls[e["src"]].append(e)
    TOL = 500_000
    nsrc = len(spec["sources"])
    done_tmp: Dict[int, List[int]] = defaultdict(list)
    for e in ev:
        if e["k"] in ("poll_ok", "poll_fail"):
            done_tmp[e["n"]].append(e["us"])
    calls: Dict[int, Dict[int, int]] = defaultdict(dict)  # round -> src -> call instant
    for si in range(nsrc):
        for e in polls[si]:
            calls[e["n"]][si] = e["us"]
            cnt["polls"] += 1
    spans = []
    for n in sorted(calls):
        c = calls[n]
        t0 = min(c.values())
        if len(c) != nsrc or max(c.values()) - t0 > TOL:
            v.append(Violation("poll-missing", f"round {n}: sources polled at +{ {k: (x - start) / 1e6 for k, x in c.items()} } s (all {nsrc} sources must be polled together)"))
        dn = max(done_tmp[n]) if len(done_tmp[n]) == nsrc else end_us
        spans.append((t0, dn))
    miss = []
    for x in expected_polls:
        if x > end_us - 1_000_000:
            continue
        # covered by a round called within [x, x+TOL], or by one in flight across x (a slow listing
        # that started before the boundary and is evaluated after it)
        if not any(0 <= g - x <= TOL or (g < x <= d) for g, d in spans):
            miss.append(x)
    extra = [g for g, _ in spans if not any(0 <= g - x <= TOL for x in expected_polls)]
    if miss:
        v.append(Violation("poll-missing", f"poll rounds at +{[(g - start) / 1e6 for g, _ in spans][:12]} s; no round for +{[(x - start) / 1e6 for x in miss][:5]} s"))
    if extra:
        v.append(Violation("poll-extra", f"unexpected poll rounds at +{[(x - start) / 1e6 for x in extra][:5]} s"))
    # poll rounds: completion instant = max poll_ok/poll_fail instant among sources for the same n
    round_done: Dict[int, int] = {}
    round_cnt: Counter = Counter()
    for e in ev:
        if e["k"] in ("poll_ok", "poll_fail"):
            round_done[e["n"]] = max(round_done.get(e["n"], 0), e["us"])
            round_cnt[e["n"]] += 1
    for n in list(round_done):
        if round_cnt[n] < len(spec["sources"]):
            del round_done[n]  # round still in flight when the run ended: not judged
    listed: Dict[str, List[Dict[str, Any]]] = defaultdict(list)  # sid -> poll_ok events listing it
    for e in ev:
        if e["k"] == "poll_ok":
            for sid in e["ids"]:
                listed[sid].append(e)
    pre: Dict[str, List[Dict[str, Any]]] = defaultdict(list)
    post: Dict[str, List[Dict[str, Any]]] = defaultdict(list)
    kicks: Dict[str, List[Dict[str, Any]]] = defaultdict(list)
    kick_fail_sids = {e["sid"] for e in ev if e["k"] == "kick_fail"}
    for e in ev:
        if e["k"] == "pre_send":
            pre[e["sid"]].append(e)
        elif e["k"] == "post_send":
            post[e["sid"]].append(e)
        elif e["k"] == "kick":
            kicks[e["sid"]].append(e)
    items = {it["id"]: (si, it) for si, s in enumerate(spec["sources"]) for it in s["items"]}
    # ---- (1b) a schedule's send goes through the hooks of the source that listed it, nobody else's
    for e in ev:
        if e["k"] in ("pre_send", "post_send") and e["sid"] in items and items[e["sid"]][0] != e["src"]:
            v.append(Violation("hooks-on-wrong-source", f"{e['k']} for schedule {e['sid']} (listed by source {items[e['sid']][0]}) was called on source {e['src']}"))
            break
    # every send the broker accepted is reported to the source (post_send has run) - checked for sends that were
    # accepted at least a second before the run ended
    done_kicks: Dict[str, int] = defaultdict(int)
    for e in ev:
        if e["k"] == "kick_done" and e["us"] < end_us - 1_000_000:
            done_kicks[e["sid"]] += 1
    for sid, n_done in done_kicks.items():
        if sid in items and len(post[sid]) < n_done:
            v.append(Violation("post-send-not-run", f"{sid}: the broker accepted {n_done} sends but the source's post_send ran {len(post[sid])} times"))
            break
    for sid, ks_ in kicks.items():
        if sid in items and len(pre[sid]) != len(ks_):
            v.append(Violation("kick-count", f"{sid}: {len(pre[sid])} pre_send calls on its source but {len(ks_)} kicks"))
            break
    # (send tasks get to run `task_start_lat` after the loop created them: an allowance of the harness's own making)
    SL = int(round(float(spec.get("task_start_lat") or 0.0) * 1_000_000))
    # ---- (2) cron schedules
    for sid, (si, it) in items.items():
        if "cron" not in it:
            continue
        sends_by_round: Counter = Counter()
        for e in pre[sid]:
            # attribute to the poll round whose completion instant equals this instant
            rnd = [n for n, t in round_done.items() if t + SL == e["us"]]
            if not rnd:
                v.append(Violation("cron-send-unattributable", f"{sid}: send at +{(e['us'] - start) / 1e6}s matches no poll round"))
                continue
            sends_by_round[max(rnd)] += 1
        for pe in listed[sid]:
            n = pe["n"]
            if n not in round_done:
                continue
            t_eval = round_done[n]
            if t_eval + SL > end_us - 1000:
                continue
            off = it["offset"]
            loc, skip = S.local_for(t_eval, off)
            if loc is None:
                cnt["tz_skipped"] += 1
                continue
            want, amb = (False, False) if it.get("bad") else S.cron_match(it["cron"], loc)
            got = sends_by_round.get(n, 0)
            if it.get("bad"):
                cnt["unparsable_cron_evaluations"] += 1
            cnt["cron_minutes_checked"] += 1
            if amb:
                continue
            if want and got != 1:
                v.append(Violation("cron-missed" if got == 0 else "cron-double", f"{sid} '{it['cron']}' off={off}: minute of poll {n} (+{(t_eval - start) / 1e6}s, local {loc.isoformat()}) matches but {got} sends"))
            elif not want and got:
                v.append(Violation("cron-spurious", f"{sid} '{it['cron']}' off={off}: minute of poll {n} (local {loc.isoformat()}) does not match but {got} sends"))
            if want:
                cnt["cron_due_minutes"] += 1
        # sends in rounds where it was not listed
        listed_rounds = {pe["n"] for pe in listed[sid]}
        for n, c in sends_by_round.items():
            if n not in listed_rounds:
                v.append(Violation("cron-spurious", f"{sid}: {c} sends in poll round {n} where the source did not list it"))
        if len(kicks[sid]) != len(pre[sid]):
            v.append(Violation("kick-count", f"{sid}: {len(pre[sid])} pre_send but {len(kicks[sid])} kicks"))
    # ---- (3) one-shot schedules
    for sid, (si, it) in items.items():
        if "time_us" not in it:
            continue
        T = it["time_us"]
        ls = listed[sid]
        if not ls:
            continue
        if sid in kick_fail_sids:
            cnt["oneshot_skipped_failed_kick"] += 1
            continue
        ks = kicks[sid]
        # firing poll: first successful listing whose evaluation instant has T within its horizon
        fire = None
        for pe in ls:
            if pe["n"] not in round_done:
                continue
            t_eval = round_done[pe["n"]]
            horizon = t_eval - t_eval % M + M + 1_000_000
            if T <= horizon:
                fire = t_eval
                break
        if fire is None:
            if ks:
                v.append(Violation("oneshot-early", f"{sid}: sent although never within a poll's horizon"))
            continue
        due = max(T, fire)
        if due + 1_000_000 >= end_us:
            continue  # too close to the end of the run to judge
        cnt["oneshots_checked"] += 1
        if not ks:
            v.append(Violation("oneshot-missed", f"{sid}: T=+{(T - start) / 1e6}s never sent (first eligible poll +{(fire - start) / 1e6}s)"))
            continue
        k1 = ks[0]["us"]
        if k1 < T and T > fire:
            v.append(Violation("oneshot-early", f"{sid}: sent at +{(k1 - start) / 1e6}s before T=+{(T - start) / 1e6}s"))
        if k1 > due + 1_000_000 + SL:
            v.append(Violation("oneshot-late", f"{sid}: sent at +{(k1 - start) / 1e6}s, more than 1 s after max(T, first listing)=+{(due - start) / 1e6}s"))
        if len(ks) > 1:
            # mechanism classification (recorded finding F7): poll rounds do not de-duplicate, so a
            # one-shot is scheduled once by every round that lists it (within that round's horizon)
            # before the source has been told (post_send) that it was sent.  That happens when T lies
            # within [B, B+1s] of a boundary B (both the round before B and the round at B are
            # eligible), or when a scheduled send is still pending / in flight at the next round.
            elig = []
            elig_i = []
            for pe in ls:
                if pe["n"] not in round_done:
                    continue
                t_eval = round_done[pe["n"]]
                if T <= t_eval - t_eval % M + M + 1_000_000:
                    elig.append(t_eval)
                    elig_i.append(pe["i"])
            # ... "before the source has been told": a source that still lists the one-shot after its post_send ran for
            # it is not that mechanism
            told = min((e["i"] for e in rec.ev if e["k"] == "post_send" and e.get("sid") == sid and e.get("src") == ls[0].get("src")),
                       default=10 ** 12)
            kind = "oneshot-sent-twice"
            if len(ks) == len(elig) and all(
                max(T, te) <= k["us"] <= max(T, te) + 1_000_000 + SL for k, te in zip(ks, elig)
            ) and all(i_ < told for i_ in elig_i):
                kind = "oneshot-resent-by-next-poll-before-removal"
            v.append(Violation(kind, f"{sid}: T=+{(T - start) / 1e6}s sent {len(ks)} times at +{[(k['us'] - start) / 1e6 for k in ks]}s; listing rounds evaluated at +{[(t - start) / 1e6 for t in elig]}s"))
    return v, cnt


class C15(Check):
    pid = "C15"
    rule = ("Scenario = real run_scheduler_loop(TaskiqScheduler(recording broker, 1-3 recording sources)) on the "
            "virtual-time loop with the scheduler module's wall clock tied to it; start instants with microsecond "
            "resolution (incl. xx:59.9, xx:59.999999), 4-30 (quick) / 4-120 (thorough) virtual minutes, every 25th run "
            "longer than a day (1445-2000 minutes) with day/weekday/month-restricted expressions; cron schedules "
            "(fixed and steered expressions, timedelta and IANA offsets) and one-shot schedules (around minute "
            "boundaries +-2 s, already past, random; naive/UTC/zone), dynamic add/remove between polls, "
            "get_schedules() latency <1 s and failures on random calls, kick() latency up to 70 s and failures on "
            "random sends; sources drop a one-shot in post_send. Oracle: every source polled at start and at every "
            "minute boundary (0..0.5 s) regardless of failures; per cron schedule and polled minute exactly one send "
            "iff the independent matcher says due (send attributed by the source's pre_send instant); per one-shot "
            "exactly one kick, not before T, <=1 s after max(T, first listing); loop never stops; 15 % of the sources also "
            "list a schedule whose expression is not a cron expression (never sent, nothing else disturbed); the loop is "
            "entered directly, through taskiq.api.run_scheduler_task or through the CLI's run_scheduler (with and without "
            "--skip-first-run: then nothing is listed or sent before the first boundary). Non-trivial: >=1 "
            "due cron minute or one-shot judged; distinct = distinct event sequences (kind, schedule, minute).")
    floors = {"counters.polls": 3000, "counters.cron_minutes_checked": 3000, "counters.cron_due_minutes": 500,
              "counters.oneshots_checked": 150, "events.poll_fail": 30, "events.kick_fail": 20,
              "counters.runs_longer_than_a_day": 20, "counters.skip_first_run_checked": 10,
              "counters.unparsable_cron_evaluations": 100}
    quick_cases = 1280
    thorough_cases = 12000
    thorough_time = 420.0
    assumptions = ["process time zone is UTC, except in the quarter of the runs that sets TZ to another zone (the loop uses naive datetime.now())",
                   "one-shots whose own send was made to fail are not judged (only that others are unaffected)"]

    def cases(self, rng: random.Random, tier: str, shard: int, nshards: int) -> Iterator[Any]:
        i = 0
        while True:
            i += 1
            if i % 25 == 0:
                yield gen_c15_long(rng)
            else:
                yield gen_c15_spec(rng, 30 if tier == "quick" else 120)

    def run_case(self, spec: Dict[str, Any]) -> CaseResult:
        cr = CaseResult()
        rec, info = run_c15(spec)
        v, cnt = oracle_c15(rec, info, spec)
        cr.violations += v
        cr.counters.update(cnt)
        if spec.get("long"):
            cr.counters["runs_longer_than_a_day"] += 1
        if spec.get("host_tz"):
            cr.counters["runs_on_non_utc_host"] += 1
        if spec.get("via_api"):
            cr.counters["runs_via_run_scheduler_task"] += 1
        for e in rec.ev:
            cr.events[e["k"]] += 1
        cr.nontrivial = cnt["cron_due_minutes"] + cnt["oneshots_checked"] > 0
        cr.sig = jhash([(e["k"], e.get("sid"), e.get("src"), (e["us"] - spec["start_us"]) // M) for e in rec.ev])
        cr.trace = [f"+{(e['us'] - spec['start_us']) / 1e6:.6f}s {e['k']} " + " ".join(f"{k}={x}" for k, x in e.items() if k not in ("i", "us", "k")) for e in rec.ev[:80]]
        return cr

    def selftest(self) -> List[str]:
        return []


# ------------------------------------------------------------------------------------
# C16


class CbSource(ScheduleSource):
    def __init__(self, rec: List[Any], spec: Dict[str, Any]) -> None:
        self.rec = rec
        self.spec = dict(spec)
        if spec.get("pre_async"):
            self.pre_send = self._apre  # type: ignore[method-assign]
        if spec.get("post_async"):
            self.post_send = self._apost  # type: ignore[method-assign]

    async def get_schedules(self) -> List[ScheduledTask]:
        return []

    def _cancel_now(self) -> bool:
        seq = self.spec.get("_cancel_seq")
        if seq:
            return bool(seq.pop(0))
        return bool(self.spec.get("cancel"))

    def pre_send(self, task: ScheduledTask) -> None:  # type: ignore[override]
        self.rec.append(("pre_send", task.schedule_id))
        if self._cancel_now():
            raise ScheduledTaskCancelledError

    async def _apre(self, task: ScheduledTask) -> None:
        self.rec.append(("pre_send", task.schedule_id))
        await asyncio.sleep(0)
        if self._cancel_now():
            raise ScheduledTaskCancelledError

    def post_send(self, task: ScheduledTask) -> None:  # type: ignore[override]
        self.rec.append(("post_send", task.schedule_id))

    async def _apost(self, task: ScheduledTask) -> None:
        await asyncio.sleep(0)
        self.rec.append(("post_send", task.schedule_id))


class DelegatingSource(ScheduleSource):
    """Hooks are plain functions that return an awaitable (they delegate to an inner async source)."""

    def __init__(self, rec: List[Any], spec: Dict[str, Any]) -> None:
        sp = dict(spec)
        sp["pre_async"] = True
        sp["post_async"] = True
        self.inner = CbSource(rec, sp)
        self.wrap = spec.get("delegate_wrap", "coroutine")

    async def get_schedules(self) -> List[ScheduledTask]:
        return []

    def _ret(self, coro: Any) -> Any:
        if self.wrap == "future":
            return asyncio.ensure_future(coro)
        if self.wrap == "awaitable":
            from mon.worker_harness import _Aw

            return _Aw(coro)
        return coro

    # (parameter names of its own - like the bundled label source's post_send(scheduled_task) - and positional-only)
    def pre_send(self, scheduled_task: ScheduledTask) -> Any:  # type: ignore[override]
        return self._ret(self.inner.pre_send(scheduled_task))

    def post_send(self, sent: ScheduledTask, /) -> Any:  # type: ignore[override]
        return self._ret(self.inner.post_send(sent))


class InstSource(ScheduleSource):
    """A source whose hooks are bound on the instance (callbacks passed in), not overridden on the class."""

    def __init__(self, rec: List[Any], spec: Dict[str, Any]) -> None:
        helper = CbSource(rec, spec)
        self.spec = helper.spec
        self.pre_send = helper.pre_send  # type: ignore[method-assign]
        self.post_send = helper.post_send  # type: ignore[method-assign]

    async def get_schedules(self) -> List[ScheduledTask]:
        return []


class KBroker(PlainBroker):
    def __init__(self, rec: List[Any]) -> None:
        super().__init__()
        self.rec = rec

    fail_next = False

    async def kick(self, message: BrokerMessage) -> None:
        self.rec.append(("kick", message.labels.get("schedule_id")))
        if self.fail_next:
            self.fail_next = False
            raise ConnectionError("broker unreachable")
        self.sent.append(message)


def gen_c16a(rng: random.Random) -> Dict[str, Any]:
    from mon.args_labels import gen_json_tree

    labels = {f"l{i}": enc_label(gen_label_value(rng)) for i in range(rng.randint(0, 3))}
    if rng.random() < 0.2:
        labels["odd"] = rng.choice([[1, 2], {"a": 1}, None])
    if rng.random() < 0.12:
        # a schedule created from inside a scheduled execution inherits that message's labels, schedule_id included
        labels["schedule_id"] = rng.choice(["sch-parent", "", "sch-0"])
    return {"mode": "on_ready", "sid": f"sch-{rng.randint(0, 999)}", "task_name": rng.choice(["mod:task", "t", "ü.task"]),
            "args": [gen_json_tree(rng) for _ in range(rng.randint(0, 3))],
            # (keyword names the sending side also uses for something of its own are ordinary keyword arguments)
            "kwargs": {(rng.choice(["labels", "task_name", "schedule_id", "task", "args", "kwargs", "source", "self_"]) if rng.random() < 0.12 else f"k{i}"):
                       gen_json_tree(rng) for i in range(rng.randint(0, 3))},
            # the broker refuses the message (outage): nothing was sent, so the source is not told it was
            "kick_fail": rng.random() < 0.1,
            "labels": labels, "cancel": rng.random() < 0.3, "pre_async": rng.random() < 0.5, "overlap": rng.choice([True, "copy"]) if rng.random() < 0.15 else False,
            "post_async": rng.random() < 0.5, "kind": rng.choice(["cron", "time"]),
            "inst_hooks": rng.random() < 0.2, "delegate": rng.random() < 0.2,
            # the scheduled task name may be a registered task with declared labels (own broker), or a shared task
            "registered": rng.choice([None, None, "own", "shared"]),
            # the same schedule fired again later; pre_send's decision may differ per firing (pause / resume)
            # (now and then a long run of cancelled firings of one schedule, then one that is not cancelled)
            "refire_cancel": ([True] * rng.randint(10, 40) + [False]) if rng.random() < 0.04
            else [rng.random() < 0.5 for _ in range(rng.choice([0, 0, 1, 2, 3]))],
            "delegate_wrap": rng.choice(["coroutine", "future", "awaitable"]),
            # further schedules fired on the same scheduler instance afterwards (state must not carry over)
            "more": [{"sid": f"sch-more-{j}", "task_name": rng.choice(["mod:task", "t", "other"]),
                      "labels": {f"m{rng.randint(0, 3)}": enc_label(gen_label_value(rng)) for _ in range(rng.randint(0, 2))},
                      "args": [rng.randint(0, 5)], "kwargs": {}} for j in range(rng.choice([0, 0, 1, 2, 3]))]}


def run_c16a(spec: Dict[str, Any]) -> "tuple[List[Violation], Any]":
    v: List[Violation] = []
    rec: List[Any] = []
    broker = KBroker(rec)
    src: Any = InstSource(rec, spec) if spec.get("inst_hooks") else (
        DelegatingSource(rec, spec) if spec.get("delegate") else CbSource(rec, spec))
    labels = {k: dec_label(x) for k, x in spec["labels"].items()}
    kw: Dict[str, Any] = {"cron": "* * * * *"} if spec["kind"] == "cron" else {"time": datetime(2030, 1, 1)}
    task = ScheduledTask(task_name=spec["task_name"], labels=copy.deepcopy(labels), args=copy.deepcopy(spec["args"]),
                         kwargs=copy.deepcopy(spec["kwargs"]), schedule_id=spec["sid"], **kw)
    sch = TaskiqScheduler(broker, [src])  # type: ignore[list-item]
    other = PlainBroker()
    cleanup_global: List[str] = []
    if spec.get("registered") == "own":
        fn0 = lambda: None  # noqa: E731
        fn0.__name__ = "sched_target"
        fn0.__module__ = "mon.sched_loop"
        broker.register_task(fn0, task_name=spec["task_name"], decl=1, queue="slow")
    elif spec.get("registered") == "shared":
        from taskiq.brokers.shared_broker import AsyncSharedBroker

        shared = AsyncSharedBroker()
        shared.default_broker(other)
        fn1 = lambda: None  # noqa: E731
        fn1.__name__ = "sched_target_shared"
        fn1.__module__ = "mon.sched_loop"
        shared.register_task(fn1, task_name=spec["task_name"], decl=2)
        cleanup_global.append(spec["task_name"])

    overlap = bool(spec.get("overlap")) and not spec["cancel"] and not spec.get("kick_fail")

    async def main(loop: Any) -> None:
        if overlap:
            # the same schedule fires again while its previous firing is still being sent (slow hooks / a slow broker):
            # two firings, two messages
            if spec.get("overlap") == "copy":
                # ... or two schedules made from one template (model_copy is shallow: they share the labels dict)
                task_b = task.model_copy(update={"schedule_id": spec["sid"] + "-b"})
                await asyncio.gather(sch.on_ready(src, task), sch.on_ready(src, task_b))
                return
            await asyncio.gather(sch.on_ready(src, task), sch.on_ready(src, task))
            return
        await sch.on_ready(src, task)

    kick_fail = bool(spec.get("kick_fail")) and not spec["cancel"]
    broker.fail_next = kick_fail
    try:
        run_virtual(main)
        if kick_fail:
            v.append(Violation("send-failure-swallowed", f"the broker refused the message but on_ready() returned normally; callbacks {rec}"))
            return v, rec
    except BaseException as exc:  # noqa: BLE001
        if kick_fail:
            from taskiq.exceptions import SendTaskError

            want_f = [("pre_send", spec["sid"]), ("kick", spec["sid"])]
            if rec != want_f:
                v.append(Violation("callback-sequence", f"failed send: observed {rec}, expected {want_f} (post_send only after a message was sent)"))
            if not isinstance(exc, SendTaskError):
                v.append(Violation("send-error-type", f"failed send surfaced as {exc!r}"))
            return v, rec
        v.append(Violation("on-ready-raised", f"on_ready raised {exc!r}"))
        return v, rec
    finally:
        from taskiq.abc.broker import AsyncBroker as _AB

        for nm in cleanup_global:
            _AB.global_task_registry.pop(nm, None)
    if other.sent:
        v.append(Violation("sent-to-wrong-broker", f"{len(other.sent)} message(s) went to a broker other than the scheduler's"))
    sid = spec["sid"]
    if overlap and spec.get("overlap") == "copy":
        ids = []
        for bm_ in broker.sent:
            m_ = broker.formatter.loads(bm_.message)
            m_.parse_labels()
            ids.append(m_.labels.get("schedule_id"))
        if sorted(map(str, ids)) != sorted([sid, sid + "-b"]):
            v.append(Violation("payload-schedule-id", f"two schedules ({sid}, {sid}-b) fired together: the messages carry schedule_id {ids}"))
        return v, rec
    if overlap:
        if sorted(rec) != sorted([("pre_send", sid), ("kick", sid), ("post_send", sid)] * 2) or len(broker.sent) != 2:
            v.append(Violation("callback-sequence", f"two overlapping firings of one schedule: observed {rec} and {len(broker.sent)} message(s), "
                               "expected pre_send, kick, post_send twice"))
        return v, rec
    want = [("pre_send", sid)] if spec["cancel"] else [("pre_send", sid), ("kick", sid), ("post_send", sid)]
    if rec != want:
        v.append(Violation("callback-sequence", f"observed {rec}, expected {want} (cancel={spec['cancel']})"))
    if not spec["cancel"] and len(broker.sent) == 1:
        bm = broker.sent[0]
        m = broker.formatter.loads(bm.message)
        m.parse_labels()
        if m.task_name != spec["task_name"] or bm.task_name != spec["task_name"]:
            v.append(Violation("payload-task-name", f"sent {m.task_name!r}, schedule says {spec['task_name']!r}"))
        if not strict_eq(m.args, spec["args"]) or not strict_eq(m.kwargs, spec["kwargs"]):
            v.append(Violation("payload-args", f"sent args {m.args!r} kwargs {m.kwargs!r}, schedule has {spec['args']!r} {spec['kwargs']!r}"))
        got = dict(m.labels)
        if got.get("schedule_id") != sid:
            v.append(Violation("payload-schedule-id", f"schedule_id label {got.get('schedule_id')!r} != {sid!r}"))
        got.pop("schedule_id", None)
        labels = {k: x for k, x in labels.items() if k != "schedule_id"}  # the scheduler's own id label replaces an inherited one
        prim = {k: x for k, x in labels.items() if type(x) in (int, float, bool, str, bytes)}
        other = {k: x for k, x in labels.items() if k not in prim}
        if not labels_eq({k: x for k, x in got.items() if k in prim}, prim) or set(got) != set(labels):
            v.append(Violation("payload-labels", f"sent labels {jsonable(got)}, schedule has {jsonable(labels)}"))
        for k, x in other.items():
            if got.get(k) != str(x):
                v.append(Violation("payload-labels", f"non-primitive label {k}: sent {got.get(k)!r}, expected text {str(x)!r}"))
    elif not spec["cancel"]:
        v.append(Violation("kick-count", f"{len(broker.sent)} messages sent for one firing"))
    if spec["cancel"] and broker.sent:
        v.append(Violation("sent-after-cancel", "message sent although pre_send cancelled"))
    # the same schedule fires again (same schedule_id): pre_send is consulted every time
    for cancel_again in spec.get("refire_cancel", []):
        src_spec = src.spec if hasattr(src, "spec") else getattr(getattr(src, "inner", None), "spec", None)
        if src_spec is None:
            break
        src_spec["_cancel_seq"] = [cancel_again]
        n_rec, n_sent = len(rec), len(broker.sent)

        async def main3(loop: Any) -> None:
            await sch.on_ready(src, task)

        try:
            run_virtual(main3)
        except BaseException as exc:  # noqa: BLE001
            v.append(Violation("on-ready-raised", f"re-firing raised {exc!r}"))
            break
        got3 = rec[n_rec:]
        want3 = [("pre_send", sid)] if cancel_again else [("pre_send", sid), ("kick", sid), ("post_send", sid)]
        if got3 != want3 or (len(broker.sent) - n_sent) != (0 if cancel_again else 1):
            v.append(Violation("callback-sequence", f"re-firing of {sid} (cancel={cancel_again}, earlier cancel={spec['cancel']}): observed {got3}, expected {want3}"))
            break
    # further firings on the same scheduler / source: each message carries exactly its own schedule's payload
    for extra in spec.get("more", []):
        if spec["cancel"]:
            break
        n0 = len(broker.sent)
        lab = {k: dec_label(x) for k, x in extra["labels"].items()}
        t2 = ScheduledTask(task_name=extra["task_name"], labels=copy.deepcopy(lab), args=list(extra["args"]),
                           kwargs=dict(extra["kwargs"]), schedule_id=extra["sid"], cron="* * * * *")

        async def main2(loop: Any, t2: Any = t2) -> None:
            await sch.on_ready(src, t2)

        try:
            run_virtual(main2)
        except BaseException as exc:  # noqa: BLE001
            v.append(Violation("on-ready-raised", f"later firing raised {exc!r}"))
            break
        if len(broker.sent) != n0 + 1:
            v.append(Violation("kick-count", f"later firing {extra['sid']}: {len(broker.sent) - n0} messages sent"))
            break
        m2 = broker.formatter.loads(broker.sent[-1].message)
        m2.parse_labels()
        got2 = dict(m2.labels)
        want2 = dict(lab)
        want2["schedule_id"] = extra["sid"]
        if m2.task_name != extra["task_name"] or not strict_eq(m2.args, extra["args"]):
            v.append(Violation("payload-args", f"later firing {extra['sid']}: sent {m2.task_name} {m2.args!r}"))
        if not labels_eq(got2, want2):
            v.append(Violation("payload-labels-leak", f"later firing {extra['sid']} on the same scheduler: sent labels {jsonable(got2)}, schedule has {jsonable(want2)}"))
    return v, rec


def gen_c16b(rng: random.Random) -> Dict[str, Any]:
    tasks = []
    times = [S.to_us(datetime(2030, 1, 1)) + i * 1_000_000 for i in range(4)]
    if rng.random() < 0.4:
        # one-shot times that differ only below the second
        times = [S.to_us(datetime(2030, 1, 1)) + d for d in (0, 250_000, 900_000, 1_000_000, 1_000_001, 2_500_000)]
    for ti in range(rng.randint(1, 4)):
        entries = []
        for _ in range(rng.randint(0, 5)):
            r = rng.random()
            e: Dict[str, Any] = {}
            if r < 0.35:
                e["cron"] = rng.choice(CRONS)
                if rng.random() < 0.3:
                    e["cron_offset"] = "Europe/Berlin"
                if rng.random() < 0.15:
                    # a recurring entry that also carries a time (e.g. its first run): it is not a one-shot
                    e["time_us"] = rng.choice(times)
                    e["tz"] = rng.choice([None, "utc"])
            elif r < 0.8:
                e["time_us"] = rng.choice(times)
                e["tz"] = rng.choice([None, "utc"])
            else:
                e["invalid"] = True
            if rng.random() < 0.4:
                e["args"] = [rng.randint(0, 3)]
                e["args_tuple"] = rng.random() < 0.4
            if rng.random() < 0.3:
                e["kwargs"] = {"k": rng.randint(0, 3)}
            if rng.random() < 0.2:
                e["labels"] = {"el": "v"}
            entries.append(e)
        tasks.append({"name": f"lt{ti}", "where": rng.choice(["own", "own", "own", "foreign", "shared"]), "entries": entries,
                      "extra_labels": rng.choice([{}, {}, {"x": 1}, {"x": 2}, {"y": "b"}, {"x": 3, "z": [1]}]), "shadowed": rng.random() < 0.2})
    nfire = rng.randint(0, 6)
    late = None
    if rng.random() < 0.25:
        late = {"name": "lt_late", "cron": rng.choice(CRONS), "time_us": rng.choice(times)}
    fire_seed = rng.randint(0, 10 ** 9)
    # one-shot entries written with an explicit `"cron": None` key (what `model_dump()` of a schedule, or a settings
    # file, produces): still one-shots - listed with their time, removed after firing.  Decided from a stream of its
    # own so that the choices above stay what they were for every seed.
    rng_cn = random.Random(fire_seed ^ 0x5EED17)
    for t_ in tasks:
        for e_ in t_["entries"]:
            if "time_us" in e_ and "cron" not in e_ and rng_cn.random() < 0.3:
                e_["cron_none"] = True
    return {"mode": "label_source", "tasks": tasks, "fire_seed": fire_seed, "nfire": nfire,
            "src_startup": rng.random() < 0.5, "late_task": late, "concurrent_list": rng.random() < 0.3,
            "same_func": rng.random() < 0.2,
            "redeclare": (S.to_us(datetime(2031, 3, 1, 12, 0)) + rng.randint(0, 10 ** 9)) if rng.random() < 0.25 else None,
            # relist: list again before every firing; otherwise fire several schedules of one listing (what the
            # scheduler loop does when several one-shots are due in the same poll)
            "relist": rng.random() < 0.5,
            "shared_default": rng.choice([None, "own", "own", "foreign"]),
            "source_on": "shared" if rng.random() < 0.15 else "own"}


def _entry_key(task: str, e: Any, task_labels: Any = None) -> Any:
    # the labels a listed schedule carries: the entry's own labels and the labels of its task (the declared list
    # itself is compared through the entries)
    lab = {**e.get("labels", {}), **(task_labels or {})}
    lab.pop("schedule", None)
    return (task, e.get("cron"), e.get("time"), jsonable(e.get("args", [])), jsonable(e.get("kwargs", {})), e.get("cron_offset"),
            sorted((k, repr(x)) for k, x in lab.items()))


def run_c16b(spec: Dict[str, Any]) -> "tuple[List[Violation], Any]":
    from taskiq.brokers.shared_broker import AsyncSharedBroker

    v: List[Violation] = []
    rec: List[Any] = []
    broker = KBroker(rec)
    foreign = PlainBroker()
    shared = AsyncSharedBroker()
    if spec.get("shared_default") == "own":
        shared.default_broker(broker)  # shared tasks are *sent* through the source's broker; they still are not its tasks
    elif spec.get("shared_default") == "foreign":
        shared.default_broker(foreign)
    obs: Dict[str, Any] = {"listed": [], "fired": []}

    def noop() -> None:
        return None

    declared: Dict[str, List[Dict[str, Any]]] = {}
    task_labels: Dict[str, Dict[str, Any]] = {}
    registered_global: List[str] = []
    for t in spec["tasks"]:
        sched = []
        for e in t["entries"]:
            d: Dict[str, Any] = {}
            if "cron" in e:
                d["cron"] = e["cron"]
                if "cron_offset" in e:
                    d["cron_offset"] = e["cron_offset"]
            if "time_us" in e:
                d["time"] = S.mk_time(e["time_us"], e["tz"])
                if e.get("cron_none"):
                    d["cron"] = None
            for k in ("args", "kwargs", "labels"):
                if k in e:
                    d[k] = copy.deepcopy(e[k])
            if e.get("args_tuple") and "args" in d:
                d["args"] = tuple(d["args"])  # declared as a tuple, as Python programmers write argument lists
            sched.append(d)
        if spec.get("same_func") and "fn_shared" in locals():
            fn = fn_shared  # one function registered under several task names, each with schedules of its own
        else:
            fn = lambda: None  # noqa: E731
            fn.__name__ = t["name"]
            fn.__module__ = "mon.sched_loop"
            fn_shared = fn
        b = {"own": broker, "foreign": foreign, "shared": shared}[t["where"]]
        b.register_task(fn, task_name=t["name"], schedule=sched, **t["extra_labels"])
        if t["where"] == "shared":
            registered_global.append(t["name"])
        on_shared = spec.get("source_on") == "shared"
        if t["where"] == "own" and t.get("shadowed"):
            # a shared (global-registry) task with the same name: the broker's own task has priority
            fn2 = lambda: None  # noqa: E731
            fn2.__name__ = t["name"] + "_shared"
            fn2.__module__ = "mon.sched_loop"
            shadow_sched = [{"cron": "*/9 * * * *", "args": ["shadow"]}]
            shared.register_task(fn2, task_name=t["name"], schedule=shadow_sched)
            registered_global.append(t["name"])
            if on_shared:
                declared[t["name"]] = shadow_sched
                task_labels[t["name"]] = {}
        if t["where"] == ("shared" if on_shared else "own"):
            declared[t["name"]] = sched
            task_labels[t["name"]] = dict(t["extra_labels"])
    # the label source of the shared broker lists the schedules declared on shared tasks
    src = LabelScheduleSource(shared if spec.get("source_on") == "shared" else broker)
    sch = TaskiqScheduler(broker, [src])
    rng = random.Random(spec["fire_seed"])

    def expected_multiset() -> Counter:
        c: Counter = Counter()
        for name, sched in declared.items():
            for e in sched:
                if "cron" in e or "time" in e:
                    c[repr(_entry_key(name, e, task_labels.get(name)))] += 1
        return c

    async def main(loop: Any) -> None:
        pending_batch: List[Any] = []
        try:
            if spec.get("src_startup"):
                await src.startup()  # what the scheduler does with every source before its first poll
            for step in range(spec["nfire"] + 1):
                if step == 1 and spec.get("late_task"):
                    # a task registered while the scheduler is already running (dynamic tasks): it is declared from now on
                    lt = spec["late_task"]
                    fn_l = lambda: None  # noqa: E731
                    fn_l.__name__ = lt["name"]
                    fn_l.__module__ = "mon.sched_loop"
                    sched_l = [{"cron": lt["cron"], "args": [9]}, {"time": S.mk_time(lt["time_us"], None)}]
                    (shared if spec.get("source_on") == "shared" else broker).register_task(fn_l, task_name=lt["name"], schedule=sched_l)
                    if spec.get("source_on") == "shared":
                        registered_global.append(lt["name"])
                    declared[lt["name"]] = sched_l
                    task_labels[lt["name"]] = {}
                if step >= 1 and spec.get("redeclare") and obs["fired"] and not obs.get("redeclared") and spec.get("relist", True):
                    # a task whose one-shot has fired is declared again under the same name (a module re-imported, a task
                    # re-registered at run time) with a new one-shot: listing and removal follow the current declaration
                    nm = obs["fired"][-1][0]
                    if nm in declared and nm not in registered_global:
                        fn_r = lambda: None  # noqa: E731
                        fn_r.__name__ = nm
                        fn_r.__module__ = "mon.sched_loop"
                        sched_r = [{"time": S.mk_time(spec["redeclare"], None), "args": [77]}, {"cron": "5 4 * * *"}]
                        tgt = shared if spec.get("source_on") == "shared" else broker
                        if tgt is broker:
                            tgt.register_task(fn_r, task_name=nm, schedule=sched_r)
                            declared[nm] = sched_r
                            task_labels[nm] = {}
                            obs["redeclared"] = nm
                if spec.get("relist", True) or step == 0 or not pending_batch:
                    listed = await src.get_schedules()
                else:
                    # keep firing schedules of the previous listing; verify the listing only when re-listing
                    listed = None
                if listed is not None:
                    got: Counter = Counter()
                    for s in listed:
                        got[repr((s.task_name, s.cron, s.time, jsonable(s.args), jsonable(s.kwargs), s.cron_offset,
                                  sorted((k, repr(x)) for k, x in s.labels.items() if k != "schedule")))] += 1
                    want = expected_multiset()
                    obs["listed"].append(len(listed))
                    if got != want:
                        v.append(Violation("label-source-listing", f"step {step}: listed {sorted(got.items())}, declared {sorted(want.items())}"))
                        return
                    for s in listed:
                        if s.task_name not in declared:
                            v.append(Violation("label-source-foreign-task", f"listed schedule of foreign task {s.task_name}"))
                    ones = [s for s in listed if s.time is not None and s.cron is None]
                    # recurring entries fire too (through their cron); nothing is removed for them
                    ones += [s for s in listed if s.cron is not None and rng.random() < 0.25]
                else:
                    ones = pending_batch
                if not spec.get("relist", True) and step > 0 and pending_batch:
                    ones = pending_batch
                if step == spec["nfire"] or not ones:
                    break
                s = rng.choice(ones)
                if not spec.get("relist", True):
                    pending_batch = [x for x in ones if x is not s]
                before = copy.deepcopy(declared)
                if spec.get("concurrent_list") and rng.random() < 0.5:
                    # the scheduler loop lists the sources while sends of the previous minute are still going out: a
                    # listing taken meanwhile shows the declared entries as they were before or after the removal
                    ms_before = expected_multiset()
                    k_ticks = rng.randint(0, 7)

                    async def _fire_later() -> None:
                        for _ in range(k_ticks):
                            await asyncio.sleep(0)
                        await sch.on_ready(src, s)

                    ft = asyncio.ensure_future(_fire_later())
                    listed2 = await src.get_schedules()
                    await ft
                    ms_after = expected_multiset()
                    got2: Counter = Counter()
                    for s2 in listed2:
                        got2[repr((s2.task_name, s2.cron, s2.time, jsonable(s2.args), jsonable(s2.kwargs), s2.cron_offset,
                                   sorted((k, repr(x)) for k, x in s2.labels.items() if k != "schedule")))] += 1
                    if got2 != ms_before and got2 != ms_after:
                        v.append(Violation("label-source-listing-torn", f"a listing taken while {s.task_name}@{s.time} fired shows {sum(got2.values())} entries: neither the "
                                           f"{sum(ms_before.values())} declared before nor the {sum(ms_after.values())} declared after the removal"))
                        return
                else:
                    await sch.on_ready(src, s)
                obs["fired"].append((s.task_name, str(s.time)))
                # model: exactly one entry of that task with that time disappears, nothing else changes
                for name, sched in before.items():
                    now_l = declared[name]
                    if name != s.task_name:
                        if len(now_l) != len(sched):
                            v.append(Violation("label-source-removed-other-task", f"firing {s.task_name}@{s.time} changed entries of {name}"))
                        continue
                    if s.cron is not None:
                        sig = lambda l: [repr((e.get("cron"), e.get("time"), e.get("args"), e.get("kwargs"))) for e in l]  # noqa: E731
                        if sig(now_l) != sig(sched):
                            v.append(Violation("label-source-removed-after-recurring", f"firing the recurring entry {s.task_name} cron={s.cron} time={s.time} changed the task's entries {len(sched)} -> {len(now_l)}"))
                        continue
                    same_time = [e for e in sched if e.get("time") == s.time]
                    if len(now_l) != len(sched) - 1:
                        v.append(Violation("label-source-remove-count", f"firing {s.task_name}@{s.time}: entries {len(sched)} -> {len(now_l)} (expected one fewer)"))
                        continue
                    # multiset difference must be one entry with that time
                    bc = Counter(repr((e.get("cron"), e.get("time"), e.get("args"), e.get("kwargs"))) for e in sched)
                    ac = Counter(repr((e.get("cron"), e.get("time"), e.get("args"), e.get("kwargs"))) for e in now_l)
                    diff = bc - ac
                    removed = list(diff.elements())
                    if len(removed) != 1 or not any(repr((e.get("cron"), e.get("time"), e.get("args"), e.get("kwargs"))) == removed[0] for e in same_time):
                        v.append(Violation("label-source-removed-wrong-entry", f"firing {s.task_name}@{s.time}: removed {removed}"))
        finally:
            from taskiq.abc.broker import AsyncBroker as AB

            for n in registered_global:
                AB.global_task_registry.pop(n, None)

    try:
        run_virtual(main)
    except BaseException as exc:  # noqa: BLE001
        v.append(Violation("label-source-raised", f"{exc!r}"))
    return v, obs


def gen_c16c(rng: random.Random) -> Dict[str, Any]:
    """Workload C: the firing path as the scheduler loop drives it - several sources, each with schedules that are
    due, some of them cancelled by their own source's pre_send."""
    base = rng.randint(S.to_us(datetime(2020, 1, 1)), S.to_us(datetime(2030, 1, 1)))
    base -= base % M
    start = base + rng.choice([0, 1, 20_000_000, 59_000_000])
    sources = []
    n = 0
    for _si in range(rng.randint(2, 3)):
        items: List[Dict[str, Any]] = []
        for _ in range(rng.randint(1, 3)):
            if rng.random() < 0.6:
                items.append({"id": f"c{n}", "cron": rng.choice(["* * * * *", "* * * * *", "*/2 * * * *"]), "offset": None, "add_at": 0.0})
            else:
                items.append({"id": f"o{n}", "time_us": start + rng.choice([-5_000_000, 10_000_000, 95_000_000]), "tz": None, "add_at": 0.0})
            n += 1
        cancel = [it["id"] for it in items if rng.random() < 0.35]
        sources.append({"items": items, "lat": rng.choice([0, 0, 0.01]), "cancel": cancel, "pre_async": rng.random() < 0.5})
    return {"mode": "loop", "start_us": start, "minutes": rng.randint(2, 3), "sources": sources, "kick_lat": {}, "kick_fail": []}


def oracle_c16c(rec: Rec, info: Dict[str, Any], spec: Dict[str, Any]) -> "tuple[List[Violation], Counter]":
    v: List[Violation] = []
    cnt: Counter = Counter()
    if info["loop_exc"] is not None:
        v.append(Violation("loop-stopped", f"run_scheduler_loop ended: {info['loop_exc']}"))
    owner = {it["id"]: si for si, s_ in enumerate(spec["sources"]) for it in s_["items"]}
    cancelled = {sid for s_ in spec["sources"] for sid in s_.get("cancel", [])}
    by_sid: Dict[str, List[Any]] = defaultdict(list)
    for e in rec.ev:
        if e["k"] in ("pre_send", "post_send", "kick", "kick_done") and e.get("sid") in owner:
            by_sid[e["sid"]].append(e)
    for sid, evs in by_sid.items():
        seq = [(e["k"], e.get("src")) for e in evs if e["k"] != "kick_done"]
        o = owner[sid]
        unit = [("pre_send", o)] if sid in cancelled else [("pre_send", o), ("kick", None), ("post_send", o)]
        cnt["loop_firings"] += sum(1 for x in seq if x[0] == "pre_send")
        cnt["loop_cancelled_firings"] += sum(1 for x in seq if x[0] == "pre_send") if sid in cancelled else 0
        # firings of one schedule do not overlap here (no latency on kick), so the sequence is a repetition of the
        # unit; the last one may be cut by the end of the run
        k = len(unit)
        full, rest = seq[: len(seq) - len(seq) % k], seq[len(seq) - len(seq) % k:]
        if full != unit * (len(full) // k) or rest != unit[: len(rest)]:
            v.append(Violation("callback-sequence", f"schedule {sid} of source {o} ({'cancelled by its pre_send' if sid in cancelled else 'not cancelled'}) fired from "
                               f"the scheduler loop: observed {seq[:9]}, expected repetitions of {unit}"))
    for sid in owner:
        if sid.startswith("c") and not by_sid.get(sid) and spec["sources"][owner[sid]]["items"][0].get("cron") == "* * * * *" and sid == spec["sources"][owner[sid]]["items"][0]["id"]:
            v.append(Violation("callback-sequence", f"every-minute schedule {sid} never fired in {spec['minutes']} minutes"))
    return v, cnt


class C16(Check):
    pid = "C16"
    rule = ("Workload A: real TaskiqScheduler.on_ready() on schedules with random task name / JSON-tree args / kwargs / "
            "typed labels (five primitive types incl. extremes, plus non-primitive), recording source with sync or "
            "async pre_send/post_send, cancelling or not; oracle: callback sequence pre_send (kick post_send)?, nothing "
            "sent on cancel, decoded message equals the schedule's payload (+schedule_id label). Workload B: real "
            "LabelScheduleSource over 1-4 tasks (own / foreign-broker / shared-broker) each with 0-5 entries {cron, "
            "time, invalid}, duplicates and equal times across tasks; one-shots fired in random order through "
            "on_ready; oracle: listing multiset == declared cron/time entries of own tasks; each firing removes "
            "exactly one entry of that task with that time and nothing else. Workload C: real run_scheduler_loop over 2-3 "
            "recording sources whose schedules are due, some cancelled by their own source's (sync or async) pre_send; "
            "oracle: per schedule the events are repetitions of pre_send[owner] (kick post_send[owner])? . Non-trivial: A with >=1 label or arg and "
            "not cancelled, B with >=1 firing; distinct = distinct payload shapes / entry layouts.")
    floors = {"counters.on_ready_cases": 1500, "counters.cancelled": 300, "counters.label_firings": 1000,
              "counters.label_listings": 2000, "counters.loop_firings": 1000, "counters.loop_cancelled_firings": 200}
    quick_cases = 8000
    thorough_cases = 200000

    def cases(self, rng: random.Random, tier: str, shard: int, nshards: int) -> Iterator[Any]:
        while True:
            r = rng.random()
            yield gen_c16a(rng) if r < 0.47 else (gen_c16b(rng) if r < 0.94 else gen_c16c(rng))

    def run_case(self, spec: Dict[str, Any]) -> CaseResult:
        cr = CaseResult()
        if spec["mode"] == "on_ready":
            v, rec = run_c16a(spec)
            cr.counters["on_ready_cases"] += 1
            cr.counters["cancelled"] += 1 if spec["cancel"] else 0
            cr.nontrivial = not spec["cancel"] and bool(spec["labels"] or spec["args"] or spec["kwargs"])
            cr.sig = jhash(["A", [type(x).__name__ for x in spec["args"]], sorted(spec["kwargs"]),
                            sorted((k, str(type(x))) for k, x in spec["labels"].items()), spec["cancel"],
                            spec["pre_async"], spec["post_async"], spec["kind"], spec.get("inst_hooks")])
            cr.trace = rec
            for r in rec:
                cr.events[r[0]] += 1
        elif spec["mode"] == "loop":
            rec_, info = run_c15(spec)
            v, cnt = oracle_c16c(rec_, info, spec)
            cr.counters.update(cnt)
            cr.nontrivial = cnt["loop_firings"] > 0
            cr.sig = jhash(["C", [(e["k"], e.get("sid"), e.get("src")) for e in rec_.ev]])
            cr.trace = [f"+{(e['us'] - spec['start_us']) / 1e6:.3f}s {e['k']} " + " ".join(f"{k}={x}" for k, x in e.items() if k not in ("i", "us", "k")) for e in rec_.ev[:60]]
            for e in rec_.ev:
                cr.events["loop:" + e["k"]] += 1
        else:
            v, obs = run_c16b(spec)
            cr.counters["label_firings"] += len(obs["fired"])
            cr.counters["label_listings"] += len(obs["listed"])
            cr.nontrivial = len(obs["fired"]) > 0
            cr.sig = jhash(["B", [(t["where"], [sorted(e) for e in t["entries"]]) for t in spec["tasks"]], obs["fired"]])
            cr.trace = obs
            cr.events["label_listing"] += len(obs["listed"])
        cr.violations += v
        return cr
