"""Scripted broker + recording receiver/backend/middlewares/dependencies/tasks.

A *spec* (plain JSON-able dict) is interpreted against the real taskiq code on the
virtual-time loop.  Everything observable is appended to one trace.
"""
from __future__ import annotations

import asyncio
import contextvars
import threading
import time as _time
from collections import deque
from concurrent.futures import ThreadPoolExecutor
from typing import Any, Dict, List, Optional, Tuple

from taskiq import (
    AckableMessage,
    AsyncBroker,
    AsyncResultBackend,
    Context,
    NoResultError,
    TaskiqDepends,
    TaskiqMiddleware,
)
from taskiq.acks import AcknowledgeType
from taskiq.kicker import AsyncKicker
from taskiq.message import BrokerMessage
from taskiq.depends.progress_tracker import ProgressTracker
from taskiq.receiver import Receiver

from mon.vloop import StepBudgetExceeded, VirtualDeadlock, WallWatchdog, run_virtual

OWNER: "contextvars.ContextVar[Optional[int]]" = contextvars.ContextVar("owner", default=None)


class CustomError(Exception):
    pass


class CustomBase(BaseException):
    pass


class LockedError(RuntimeError):
    """An application error that cannot be pickled itself (it holds a lock); its base class can."""

    def __init__(self, *args: Any) -> None:
        super().__init__(*args)
        self.guard = threading.Lock()


class SkipResult(NoResultError):
    """A subclass of the no-result signal."""


class BadStrError(Exception):
    """An application error whose text cannot be produced (__str__ raises): nobody needs its text to process it."""

    def __str__(self) -> str:
        raise TypeError("can only concatenate str (not \"NoneType\") to str")


class FalsyError(Exception):
    """An exception that evaluates false (e.g. an error carrying an empty list of problems)."""

    def __bool__(self) -> bool:
        return False


class EmptyLenError(Exception):
    def __len__(self) -> int:
        return 0


_REQ_KEYS = [0]


def _next_req_key() -> str:
    _REQ_KEYS[0] += 1
    return f"key-{_REQ_KEYS[0]}"


import datetime as _dt  # noqa: E402
import decimal as _decimal  # noqa: E402
import uuid as _uuid  # noqa: E402

import pydantic as _pyd  # noqa: E402


class _ReqModel(_pyd.BaseModel):
    """A request model with a generated field: whoever builds it without `key` gets a fresh one."""

    name: str = "n"
    key: str = _pyd.Field(default_factory=_next_req_key)
    # values that are not JSON-native once parsed (what a re-send has to serialise again)
    at: Optional[_dt.datetime] = None
    amount: Optional[_decimal.Decimal] = None
    uid: Optional[_uuid.UUID] = None


@__import__("dataclasses").dataclass
class _Unit:
    """Annotated[...] metadata of an application (eq without frozen: instances are not hashable)."""

    name: str


class _PlainCls:
    """A plain class: pydantic cannot build a schema for it (annotation of a task parameter)."""

    def __init__(self, v: Any = None) -> None:
        self.v = v


class HookBoom(Exception):
    pass


class BackendDown(Exception):
    pass


class DepBoom(Exception):
    pass


EXC_POOL: Dict[str, Any] = {
    "ValueError": ValueError,
    "KeyError": KeyError,
    "RuntimeError": RuntimeError,
    "CustomError": CustomError,
    "CustomBase": CustomBase,
    "KeyboardInterrupt": KeyboardInterrupt,
    "SystemExit": SystemExit,
    "CancelledError": asyncio.CancelledError,
    "GeneratorExit": GeneratorExit,
    "TimeoutError": TimeoutError,
    "OSError": OSError,
    "FalsyError": FalsyError,
    "EmptyLenError": EmptyLenError,
    "BadStrError": BadStrError,
    "LockedError": LockedError,
    # exception groups (what asyncio.TaskGroup / anyio raise): with one member, several, a BaseException member, and one
    # whose only member is the no-result signal - the group is what the function raised
    "Group1": lambda tok, value: ExceptionGroup(tok, [ValueError(tok, value)]),
    "Group2": lambda tok, value: ExceptionGroup(tok, [ValueError(tok, value), KeyError(tok)]),
    "GroupBase1": lambda tok, value: BaseExceptionGroup(tok, [KeyboardInterrupt(tok)]),
    "GroupNoResult": lambda tok, value: ExceptionGroup(tok, [NoResultError(tok)]),
    # raise AppError(...) from low_level_error: the exception raised is the outer one
    "Chained": lambda tok, value: _chained(tok, value),
    # what Context.reject() raises: an ordinary failure for the result and for the retry middleware
    "TaskRejectedError": lambda tok, value: _rejected(tok, value),
}


def _chained(tok: Any, value: Any) -> BaseException:
    exc = CustomError(tok, value)
    exc.__cause__ = KeyError("low-level cause", tok)
    return exc


def _rejected(tok: Any, value: Any) -> BaseException:
    from taskiq.exceptions import TaskRejectedError
    exc = TaskRejectedError()
    exc.args = (tok, value)  # like the other pool exceptions: identifies the message that raised it
    return exc


class Trace:
    def __init__(self) -> None:
        self.ev: List[Dict[str, Any]] = []
        # re-entrant: a generator dependency that is garbage-collected while add() allocates runs its
        # clean-up code, which records an event from inside add()
        self.lock = threading.RLock()
        self.loop: Any = None
        self.now: Any = None  # optional callable (real-time runs)

    def add(self, kind: str, mid: Any = None, **data: Any) -> None:
        with self.lock:
            t = self.now() if self.now is not None else (self.loop._v_now if self.loop is not None else -1.0)
            e = {"i": len(self.ev), "t": t, "k": kind, "m": mid}
            if data:
                e.update(data)
            self.ev.append(e)


class Scenario:
    """Run-time state of one interpreted spec."""

    def __init__(self, spec: Dict[str, Any]) -> None:
        self.spec = spec
        self.trace = Trace()
        self.by_obj: Dict[int, int] = {}
        self.keep: List[Any] = []
        self.deliveries: List[Dict[str, Any]] = []  # delivery idx -> info
        self.tok_delivery: Dict[str, int] = {}
        self.attempts: Dict[str, int] = {}
        self.saved: List[Any] = []  # (delivery, task_id, result object)
        self.raised: Dict[int, BaseException] = {}  # delivery -> exception object raised by task
        self.kicked: List[Any] = []
        self.beh: Dict[str, Any] = {}
        self.listen_error: Optional[BaseException] = None
        self.late: List[Any] = []  # (at, function, task name, labels): tasks registered while the worker runs
        self.shared_names: List[str] = []  # names put into the process-wide shared registry (removed afterwards)


# ------------------------------------------------------------------------------------
# broker


class ScriptedBroker(AsyncBroker):
    def __init__(self, sc: Scenario) -> None:
        super().__init__()
        self.sc = sc
        self.q: "deque[Any]" = deque()
        self.wake: Optional[asyncio.Event] = None
        self.script_left = 0
        self.loopback = bool(sc.spec.get("loopback"))
        self.kick_fail: Any = sc.spec.get("kick_fail") or []
        self.kick_lat = sc.spec.get("kick_lat", 0)
        self.nkicks = 0

    def new_delivery(self, info: Dict[str, Any]) -> int:
        d = len(self.sc.deliveries)
        info["d"] = d
        self.sc.deliveries.append(info)
        return d

    def _arrive(self, item: Any, scripted: bool = True) -> None:
        self.q.append(item)
        if scripted:
            self.script_left -= 1
        if self.wake is not None:
            self.wake.set()

    async def kick(self, message: BrokerMessage) -> None:
        sc = self.sc
        n = self.nkicks
        self.nkicks += 1
        sc.trace.add("kick", OWNER.get(), task_id=message.task_id, n=n, task_name=message.task_name,
                     retries=str((message.labels or {}).get("_retries", 0)))
        sc.kicked.append(message)
        if self.kick_lat:
            # (a send takes time: back-pressure, a slow connection).  The owner is the execution that sends.
            owner = OWNER.get()
            sc.trace.add("kick_wait", owner, n=n)
            try:
                await asyncio.sleep(self.kick_lat)
            finally:
                sc.trace.add("kick_wait_end", owner, n=n)
        if n in self.kick_fail or self.kick_fail == "all":
            sc.trace.add("kick_fail", OWNER.get(), task_id=message.task_id, n=n)
            kind = (sc.spec.get("kick_exc") or ["BackendDown"])
            raise _kick_exc(kind[n % len(kind)])
        if self.loopback:
            info = {"tok": message.task_id, "kind": "valid", "loop": True,
                    "ackable": bool(sc.spec.get("loop_ackable")), "ack_async": False, "ack_lat": 0,
                    "ack_raise": bool(sc.spec.get("loop_ack_raise"))}
            self.new_delivery(info)
            info["payload"] = message.message
            self._arrive(info, scripted=False)
        if n in (sc.spec.get("kick_lost") or []):
            # the broker took the message but its confirmation got lost: the send fails although the message is on its way
            sc.trace.add("kick_lost", OWNER.get(), task_id=message.task_id, n=n)
            raise {"ConnectionError": ConnectionError, "TimeoutError": TimeoutError,
                   "ConnectionResetError": ConnectionResetError}[sc.spec.get("kick_lost_exc", "ConnectionError")]("confirmation lost")

    def _fault(self) -> None:
        self.fault_pending = True
        if self.wake is not None:
            self.wake.set()

    async def listen(self) -> Any:  # type: ignore[override]
        sc = self.sc
        self.wake = asyncio.Event()
        while True:
            if getattr(self, "fault_pending", False):
                # the connection to the message source breaks: the stream raises (programmatic workers restart it)
                self.fault_pending = False
                sc.trace.add("stream_fault")
                raise ConnectionError("stream broken")
            while not self.q:
                if self.script_left <= 0 and sc.spec.get("end_stream"):
                    sc.trace.add("stream_end")
                    return
                self.wake.clear()
                await self.wake.wait()
                if getattr(self, "fault_pending", False):
                    break
            if getattr(self, "fault_pending", False):
                continue
            info = self.q.popleft()
            payload = info["payload"]
            if isinstance(payload, (bytes, bytearray)):
                # a fresh object per delivery that carries its delivery number (even for b"").  No reference is kept:
                # a streaming broker's message objects are garbage once processed (and their id() may be re-used)
                if len(payload) == 0:
                    # CPython has one empty bytes object: every zero-length frame a network broker delivers *is* b""
                    payload = b""
                    if not info.get("ackable"):
                        sc.__dict__.setdefault("empty_ds", []).append(info["d"])
                else:
                    payload = TBytes(payload)
                    payload.verif_d = info["d"]
            if info.get("ackable"):
                ackf = make_ack(sc, info)
                try:
                    ackf.verif_d = info["d"]
                except AttributeError:
                    pass
                if info.get("ack_subclass") or (sc.spec.get("ack_subclass") and info["d"] % 2):
                    # the broker's own message class (a delivery tag next to the payload)
                    payload = _TaggedMessage(data=payload, ack=ackf, delivery_tag=info["d"])
                else:
                    payload = AckableMessage(data=payload, ack=ackf)
            sc.trace.add("yield", info["d"], tok=info["tok"], mk=info["kind"])
            yield payload
            del payload


from taskiq.brokers.inmemory_broker import InMemoryBroker  # noqa: E402


class _RecvProxy:
    """Whatever Receiver object the in-memory broker currently holds, with MonReceiver's recording around callback()."""

    def __init__(self, real: Any, sc: Scenario) -> None:
        self.__dict__["_real"] = real
        self.__dict__["_sc"] = sc

    def __getattr__(self, name: str) -> Any:
        return getattr(self.__dict__["_real"], name)

    def __setattr__(self, name: str, value: Any) -> None:
        setattr(self.__dict__["_real"], name, value)

    async def callback(self, message: Any, raise_err: bool = False) -> None:
        sc = self.__dict__["_sc"]
        d = getattr(message, "verif_d", None)
        prev = OWNER.set(d)
        if d is not None:
            sc.tok_delivery[sc.deliveries[d]["tok"]] = d
        sc.trace.add("cb_enter", d)
        try:
            await self.__dict__["_real"].callback(message, raise_err)
        except BaseException as exc:  # noqa: BLE001
            sc.trace.add("cb_raise", d, exc=type(exc).__name__)
            raise
        finally:
            sc.trace.add("cb_exit", d)
            try:
                OWNER.reset(prev)  # (an in-place broker runs this callback inside the sender's asyncio task)
            except ValueError:
                pass


class MonInMemoryBroker(InMemoryBroker):
    """The real InMemoryBroker (kick() runs Receiver.callback in a new asyncio task) with recording.  The Receiver is
    the one the broker builds itself (in __init__, or whenever it chooses to build another one): `receiver` is a
    property that hands out a recording proxy around the current object."""

    sc: Scenario

    @property
    def receiver(self) -> Any:  # type: ignore[override]
        return _RecvProxy(self.__dict__["_real_receiver"], self.sc)

    @receiver.setter
    def receiver(self, value: Any) -> None:
        self.__dict__["_real_receiver"] = value

    def new_delivery(self, info: Dict[str, Any]) -> int:
        d = len(self.sc.deliveries)
        info["d"] = d
        self.sc.deliveries.append(info)
        return d

    async def kick(self, message: BrokerMessage) -> None:
        sc = self.sc
        n = self.__dict__.setdefault("nkicks", 0)
        self.__dict__["nkicks"] = n + 1
        sc.trace.add("kick", OWNER.get(), task_id=message.task_id, n=n, task_name=message.task_name,
                     retries=str((message.labels or {}).get("_retries", 0)))
        sc.kicked.append(message)
        kf = sc.spec.get("kick_fail") or []
        if n in kf:
            sc.trace.add("kick_fail", OWNER.get(), task_id=message.task_id, n=n)
            kind = (sc.spec.get("kick_exc") or ["BackendDown"])
            raise _kick_exc(kind[n % len(kind)])
        info = {"tok": message.task_id, "kind": "valid", "loop": True, "ackable": False, "task": message.task_name}
        d = self.new_delivery(info)
        payload = TBytes(message.message)
        payload.verif_d = d
        sc.trace.add("yield", d, tok=message.task_id, mk="valid")
        await super().kick(message.model_copy(update={"message": payload}))


class _TaggedMessage(AckableMessage):
    """What a broker may hand out: a subclass of AckableMessage with fields of its own."""

    delivery_tag: int = 0


class TBytes(bytes):
    """A bytes object with its own identity (plain equal bytes objects may be shared / cached, e.g. b"")."""


class _Aw:
    """An awaitable that is not a coroutine object (AckableMessage.ack may return any Awaitable)."""

    def __init__(self, coro: Any) -> None:
        self.coro = coro

    def __await__(self) -> Any:
        return self.coro.__await__()


class AckBoom(Exception):
    pass


def _kick_exc(name: str) -> BaseException:
    import taskiq.exceptions as te

    if name == "BackendDown":
        return BackendDown("kick failed")
    if name == "ConnectionError":
        return ConnectionError("kick failed")
    if name == "UnknownTaskError":
        return te.UnknownTaskError(task_name="x")
    if name == "TaskiqResultTimeoutError":
        return te.TaskiqResultTimeoutError(timeout=1.0)
    return getattr(te, name)()


def make_ack(sc: Scenario, info: Dict[str, Any]) -> Any:
    d = info["d"]
    lat = info.get("ack_lat", 0)
    kind = info.get("ack_kind") or ("async" if info.get("ack_async") else "sync")
    boom = info.get("ack_raise")

    async def _body() -> None:
        sc.trace.add("ack", d)
        if lat == "y":
            await asyncio.sleep(0)
        elif lat:
            await asyncio.sleep(lat)
        sc.trace.add("ack_done", d)
        if boom:
            raise AckBoom(str(d))

    if kind == "async":
        ack: Any = _body
    elif kind == "awaitable":
        def ack() -> Any:  # returns an object with __await__ (not a coroutine)
            return _Aw(_body())
    elif kind == "task":
        def ack() -> Any:  # returns an already scheduled Task / Future
            return asyncio.ensure_future(_body())
    else:
        def ack() -> None:
            sc.trace.add("ack", d)
            sc.trace.add("ack_done", d)
            if boom:
                raise AckBoom(str(d))
    return ack


# ------------------------------------------------------------------------------------
# receiver


class MonReceiver(Receiver):
    sc: Scenario

    async def callback(self, message: Any, raise_err: bool = False) -> None:  # noqa: D102
        sc = self.sc
        d = getattr(message, "verif_d", None)
        if d is None:
            d = getattr(getattr(message, "ack", None), "verif_d", None)
        if d is None:
            d = getattr(getattr(message, "data", None), "verif_d", None)
        if d is None and type(message) is bytes and not message and sc.__dict__.get("empty_ds"):
            d = sc.empty_ds.pop(0)  # empty frames are handed over in the order they were delivered
        prev = OWNER.set(d)
        if d is not None:
            sc.tok_delivery[sc.deliveries[d]["tok"]] = d
        sc.trace.add("cb_enter", d)
        try:
            await super().callback(message, raise_err)
        except BaseException as exc:  # noqa: BLE001
            sc.trace.add("cb_raise", d, exc=type(exc).__name__)
            raise
        finally:
            sc.trace.add("cb_exit", d)
            try:
                OWNER.reset(prev)
            except ValueError:
                pass


# ------------------------------------------------------------------------------------
# backend


class RecordingBackend(AsyncResultBackend):  # type: ignore[type-arg]
    def __init__(self, sc: Scenario) -> None:
        self.sc = sc
        self.lat = sc.spec.get("backend", {}).get("lat", 0)
        self.fail = set(sc.spec.get("backend", {}).get("fail", []))
        self.fail_cancel = set(sc.spec.get("backend", {}).get("fail_cancel", []))
        self.store: Dict[str, Any] = {}
        self.stock: Any = None
        if sc.spec.get("backend", {}).get("stock"):
            from taskiq.brokers.inmemory_broker import InmemoryResultBackend

            self.stock = InmemoryResultBackend(max_stored_results=sc.spec["backend"].get("stock_max", 100))
            sc.stock_backend = self.stock  # type: ignore[attr-defined]

    async def set_result(self, task_id: str, result: Any) -> None:
        sc = self.sc
        d = OWNER.get()
        err = result.error
        sc.trace.add(
            "set_enter", d, task_id=task_id, is_err=result.is_err,
            rv=safe_json(result.return_value),
            err=None if err is None else type(err).__name__,
            labels=safe_json(dict(result.labels)),
        )
        sc.saved.append((d, task_id, result))
        if sc.spec.get("backend", {}).get("pickle"):
            # a backend that keeps results as pickles (what the network backends do)
            import pickle

            try:
                back = pickle.loads(pickle.dumps(result))  # noqa: S301
                sc.trace.add("set_pickled", d, task_id=task_id, is_err=back.is_err,
                             err=None if back.error is None else type(back.error).__name__,
                             err_args=None if back.error is None else safe_json(list(back.error.args)),
                             rv=safe_json(back.return_value))
            except Exception as exc:  # noqa: BLE001
                sc.trace.add("set_pickle_failed", d, task_id=task_id, exc=repr(exc)[:200])
        if self.lat == "y":
            await asyncio.sleep(0)
        elif self.lat:
            await asyncio.sleep(self.lat)
        tok = sc.deliveries[d]["tok"] if d is not None else None
        if tok in self.fail_cancel:
            sc.trace.add("set_fail", d, exc="CancelledError")
            raise asyncio.CancelledError("backend")
        if tok in self.fail or "*" in self.fail:
            sc.trace.add("set_fail", d)
            if sc.spec["backend"].get("fail_noargs"):
                raise BackendDown  # an exception without arguments (ConnectionResetError(), TimeoutError(), ...)
            fx = sc.spec["backend"].get("fail_exc")
            if fx:
                import socket

                raise {"TimeoutError": TimeoutError, "socket.timeout": socket.timeout, "ConnectionError": ConnectionError,
                       "KeyError": KeyError, "asyncio.TimeoutError": asyncio.TimeoutError}[fx]("backend down")
            raise BackendDown("backend down")
        self.store[task_id] = result
        if self.stock is not None:
            await self.stock.set_result(task_id, result)  # the bundled in-memory backend sees every write
            sc.stock_last = (task_id, result)  # type: ignore[attr-defined]
        sc.trace.add("set_exit", d)
        if tok == "prime" and getattr(sc, "late_rm", None) is not None:
            bk, rm = sc.late_rm  # type: ignore[attr-defined]
            sc.late_rm = None  # type: ignore[attr-defined]
            bk.add_middlewares(rm)
            sc.trace.add("retry_mw_added")

    async def set_progress(self, task_id: str, progress: Any) -> None:
        self.sc.trace.add("set_progress", OWNER.get(), task_id=task_id, state=str(progress.state), meta=safe_json(progress.meta))
        self.__dict__.setdefault("progress", {})[task_id] = progress
        if self.stock is not None:
            await self.stock.set_progress(task_id, progress)  # the bundled backend keeps the progress too

    async def get_progress(self, task_id: str) -> Any:
        if self.stock is not None and self.sc.spec["backend"].get("stock_max", 100) >= 100:
            return await self.stock.get_progress(task_id)
        return self.__dict__.setdefault("progress", {}).get(task_id)

    async def is_result_ready(self, task_id: str) -> bool:
        return task_id in self.store

    async def get_result(self, task_id: str, with_logs: bool = False) -> Any:
        return self.store[task_id]


def safe_json(v: Any) -> Any:
    if isinstance(v, (str, int, float, bool)) or v is None:
        return v
    if isinstance(v, (list, tuple)):
        return [safe_json(x) for x in v]
    if isinstance(v, dict):
        return {str(k): safe_json(x) for k, x in v.items()}
    if isinstance(v, bytes):
        return {"__bytes__": v.hex()}
    return repr(v)


# ------------------------------------------------------------------------------------
# middlewares


def build_middlewares(sc: Scenario) -> List[TaskiqMiddleware]:
    out = []
    for i, mws in enumerate(sc.spec.get("mws", [])):
        attrs: Dict[str, Any] = {}
        for hook, hs in mws.items():
            attrs[hook] = _make_hook(sc, i, hook, hs)
        if sc.spec.get("mw_eq"):
            # middlewares that compare by value (dataclass-style): two of them configured alike are equal objects,
            # and still two registered middlewares
            attrs["__eq__"] = lambda self, other: isinstance(other, TaskiqMiddleware)
            attrs["__hash__"] = lambda self: 1
        inherit = any(isinstance(hs, dict) and hs.get("inherit") for hs in mws.values())
        if inherit:
            # hooks defined on a library base class, the registered middleware is a subclass of it
            base = type(f"BaseMw{i}", (TaskiqMiddleware,), attrs)
            cls = type(f"RecMw{i}", (base,), {"extra": 1})
        else:
            cls = type(f"RecMw{i}", (TaskiqMiddleware,), attrs)
        out.append(cls())
    return out


UNKNOWN_NAMES = ["no_such_task", "other.module:t_async", "no_such_task", "T_ASYNC", "t_asyn", "billing.jobs:t_sync", "no_such_task",
                 "t_async:t_async", ":t_async", "t_async:", "t_async ", "mon.worker_harness:t_async", "t_sync.t_sync"]


def _markers(message: Any) -> List[str]:
    return sorted(k for k in message.labels if k.startswith("mk_"))


def _make_hook(sc: Scenario, i: int, hook: str, hs: Dict[str, Any]) -> Any:
    lat = hs.get("lat", 0)
    replace = hs.get("replace", False)
    rz = hs.get("raise")  # None | "all" | list of tokens
    returns_msg = hook in ("pre_send", "pre_execute")
    slow = bool(lat) and bool(hs.get("async") or hs.get("style") in ("awaitable", "task"))

    def _pre(message: Any, rest: Any) -> None:
        data: Dict[str, Any] = {"mw": i, "tok": message.task_id, "marks": _markers(message)}
        if hook in ("post_execute", "post_save", "on_error"):
            res = rest[0]
            data["res_err"] = None if res.error is None else type(res.error).__name__
            data["is_err"] = res.is_err
        if hook == "on_error":
            data["exc"] = type(rest[1]).__name__
        data["labels"] = safe_json(dict(message.labels))
        if slow:
            data["slow"] = 1
        sc.trace.add("mw:" + hook, OWNER.get(), **data)

    def _post(message: Any) -> Any:
        if hs.get("mutate_labels"):
            # a hook that annotates the message it was given (after the execution): nothing already derived
            # from the message - the result in particular - may change with it
            message.labels["zz_mutated_by_" + hook] = i
        if rz == "all" or (isinstance(rz, list) and message.task_id in rz):
            sc.trace.add("mw_raise:" + hook, OWNER.get(), mw=i, tok=message.task_id)
            if hs.get("raise_exc") == "CancelledError":
                raise asyncio.CancelledError(f"{hook}{i}")
            raise HookBoom(f"{hook}{i}")
        if returns_msg:
            if hs.get("retag") and hook == "pre_execute":
                # a worker-side middleware that namespaces task ids: what is executed (and stored) is the message it returns
                new = message.model_copy(deep=True)
                new.task_id = message.task_id + "@w"
                return new
            if replace:
                new = message.model_copy(deep=True)
                new.labels[f"mk_{i}_{hook}"] = "1"
                return new
            return message
        return None

    if hs.get("async") or hs.get("style") in ("awaitable", "task"):
        async def ahook(self: Any, message: Any, *rest: Any) -> Any:
            _pre(message, rest)
            if lat == "y":
                await asyncio.sleep(0)
            elif lat:
                await asyncio.sleep(lat)
            if slow:
                sc.trace.add("mw_end:" + hook, OWNER.get(), mw=i, tok=message.task_id)
            return _post(message)
        ahook.__name__ = hook
        if hs.get("style") == "awaitable":
            def whook(self: Any, message: Any, *rest: Any) -> Any:  # plain function returning an awaitable object
                return _Aw(ahook(self, message, *rest))
            whook.__name__ = hook
            return whook
        if hs.get("style") == "task":
            def thook(self: Any, message: Any, *rest: Any) -> Any:  # plain function returning a Task
                return asyncio.ensure_future(ahook(self, message, *rest))
            thook.__name__ = hook
            return thook
        return ahook

    def shook(self: Any, message: Any, *rest: Any) -> Any:
        _pre(message, rest)
        return _post(message)
    shook.__name__ = hook
    return shook


# ------------------------------------------------------------------------------------
# dependencies and tasks (generated source)


def _echo(ctx: Any) -> Any:
    try:
        m = ctx.message
        # (4th element: the *names* of the labels this Context carries, bookkeeping of Context.requeue aside)
        return [m.task_id, m.labels.get("own"), m.args[0] if m.args else None,
                sorted(str(k) for k in m.labels if k != "X-Taskiq-requeue")]
    except Exception as exc:  # noqa: BLE001
        return ["<echo failed>", repr(exc), None]


def build_functions(sc: Scenario, broker: AsyncBroker) -> None:
    """Create dependency and task functions from the spec and register tasks."""
    import contextlib

    spec = sc.spec
    ns: Dict[str, Any] = {
        "TaskiqDepends": TaskiqDepends, "Context": Context, "asyncio": asyncio,
        "contextlib": contextlib, "_sc": sc, "_echo": _echo, "OWNER": OWNER,
        "DepBoom": DepBoom, "_dep_lat": _dep_lat, "_run_beh": _run_beh, "_PlainCls": _PlainCls, "_ReqModel": _ReqModel,
        "ProgressTracker": ProgressTracker,
        "_run_beh_sync": _run_beh_sync,
    }
    deps = spec.get("deps", {})
    done: set = set()

    def emit_dep(name: str) -> None:
        if name in done:
            return
        nd = deps[name]
        for s in nd.get("subs", []):
            emit_dep(s)
        params = []
        if nd.get("ctx"):
            params.append("ctx: Context = TaskiqDepends()")
        for s in nd.get("subs", []):
            uc = deps[s].get("cache", True)
            params.append(f"{s}=TaskiqDepends({s}, use_cache={uc})")
        ps = ", ".join(params)
        echo = "_echo(ctx)" if nd.get("ctx") else "None"
        style = nd["style"]
        is_async = style in ("plain_async", "agen", "acm")
        lat = nd.get("lat", 0)
        td_lat = nd.get("td_lat", 0)
        subs_v = "[" + ", ".join(nd.get("subs", [])) + "]"
        lines = []
        if style in ("cm",):
            lines.append("@contextlib.contextmanager")
        if style in ("acm",):
            lines.append("@contextlib.asynccontextmanager")
        lines.append(f"{'async ' if is_async else ''}def {name}({ps}):")
        lines.append(f"    _d = OWNER.get()")
        lines.append(f"    _sc.trace.add('dep_enter', _d, dep={name!r}, echo={echo})")
        if is_async and lat:
            lines.append(f"    await _dep_lat({lat!r})")
        if nd.get("raise_open"):
            # (the failure may be of any class - a connect that timed out, a lookup that failed)
            xc = {"TimeoutError": "TimeoutError", "asyncio.TimeoutError": "asyncio.TimeoutError", "ConnectionError": "ConnectionError",
                  "KeyError": "KeyError"}.get(nd.get("raise_open_exc") or "", "DepBoom")
            pad = ""
            if nd.get("raise_open_toks") is not None:
                # ... and only for some of the messages (the resource was not up yet when the first ones came)
                lines.append(f"    if _d is not None and _sc.deliveries[_d]['tok'] in {set(nd['raise_open_toks'])!r}:")
                pad = "    "
            lines.append(f"    {pad}_sc.trace.add('dep_raise', _d, dep={name!r})")
            lines.append(f"    {pad}raise {xc}({name!r})")
        lines.append(f"    _sc.trace.add('dep_open', _d, dep={name!r}, echo={echo}, subs={subs_v})")
        val = f"{{'dep': {name!r}, 'echo': {echo}, 'subs': {subs_v}}}"
        if style in ("plain_sync", "plain_async"):
            lines.append(f"    return {val}")
        else:
            lines.append("    _seen = None")
            lines.append("    try:")
            lines.append(f"        yield {val}")
            lines.append("    except BaseException as _e:")
            lines.append("        _seen = type(_e).__name__")
            lines.append(f"    _sc.trace.add('dep_close', _d, dep={name!r}, exc_seen=_seen)")
            if is_async and td_lat:
                if nd.get("td_err_only"):
                    # (a rollback: the slow part of the teardown happens on the error path only)
                    lines.append("    if _seen is not None:")
                    lines.append(f"        await _dep_lat({td_lat!r})")
                else:
                    lines.append(f"    await _dep_lat({td_lat!r})")
                lines.append(f"    _sc.trace.add('dep_closed', _d, dep={name!r})")
        exec("\n".join(lines), ns)  # noqa: S102
        done.add(name)

    for name in deps:
        emit_dep(name)

    for tname, ts in spec.get("tasks", {}).items():
        params = ["tok"]
        if ts.get("plain_param"):
            params.append("obj: _PlainCls = None")
        if ts.get("annot_param"):
            # Annotated with metadata of the application's own (a plain dataclass instance: not hashable)
            params.append("w: Annotated[float, _Unit('kg')] = None")
            ns["Annotated"] = __import__("typing").Annotated
            ns["_Unit"] = _Unit
        if ts.get("model_param"):
            params.append("req: _ReqModel = None")
        strict = bool(ts.get("strict_sig"))  # no *args/**kwargs: a wrongly resolved call raises TypeError
        if not strict:
            params.append("*args")
        if ts.get("progress"):
            params.append("pt: ProgressTracker = TaskiqDepends()")
        for s in ts.get("deps", []):
            uc = deps[s].get("cache", True)
            params.append(f"{s}=TaskiqDepends({s}, use_cache={uc})")
        if ts.get("ctx") == "annotated":
            # Annotated style: no default value, the parameter is only ever filled by the dependency resolver
            params.append("ctx: Annotated[Context, TaskiqDepends()]" if not strict else "ctx: Annotated[Context, TaskiqDepends()] = None")
            ns["Annotated"] = __import__("typing").Annotated
        elif ts.get("ctx"):
            params.append("ctx: Context = TaskiqDepends()")
        if not strict:
            params.append("**kwargs")
        ps = ", ".join(params)
        depvals = "{" + ", ".join(f"{s!r}: {s}" for s in ts.get("deps", [])) + "}"
        echo = "_echo(ctx)" if ts.get("ctx") else "None"
        fn = "fn_" + tname
        a_kw = "(), {}" if strict else ("args, dict(kwargs, req=req)" if ts.get("model_param") else "args, kwargs")
        ra = f" -> {ts['ret_ann']}" if ts.get("ret_ann") else ""  # a return annotation (documentation for callers)
        if ra:
            ns["List"] = List
            ns["Dict"] = Dict
        if ts.get("fn", "async") == "async":
            pt = "pt" if ts.get("progress") else "None"
            cx = "ctx" if ts.get("ctx") else "None"
            src = (
                f"async def {fn}({ps}){ra}:\n"
                f"    return await _run_beh(_sc, tok, {a_kw}, {depvals}, {echo}, {pt}, {cx})\n"
            )
        else:
            src = (
                f"def {fn}({ps}){ra}:\n"
                f"    return _run_beh_sync(_sc, tok, {a_kw}, {depvals}, {echo})\n"
            )
        if ts.get("asyncified") and ts.get("fn", "async") == "async":
            # an async wrapper made with functools.wraps around a blocking function (asyncify / sync_to_async style):
            # the registered callable is the coroutine function, whatever it wraps
            src = (f"def inner_{fn}({ps}):\n    raise RuntimeError('the wrapped blocking function is not what was registered')\n"
                   f"@functools.wraps(inner_{fn})\n" + src)
            ns["functools"] = __import__("functools")
        exec(src, ns)  # noqa: S102
        f = ns[fn]
        f.__module__ = "mon.worker_harness"
        if ts.get("late_at") is not None:
            # (reg_name: the name it is registered under - a second function for a name that is registered already)
            sc.late.append((ts["late_at"], f, ts.get("reg_name", tname), ts.get("labels", {})))
        elif ts.get("shared"):
            # a task of the process-wide shared broker: any worker may be asked to run it
            from taskiq import async_shared_broker

            async_shared_broker.register_task(f, task_name=tname, **ts.get("labels", {}))
            sc.shared_names.append(tname)
        else:
            broker.register_task(f, task_name=tname, **ts.get("labels", {}))
    for tname in spec.get("shadow_shared", []):
        # a shared task with the name of one of the worker's own tasks: the own one must be the one that runs
        from taskiq import async_shared_broker

        src = (f"async def shadow_{tname}(*args, **kwargs):\n"
               f"    _sc.trace.add('foreign_call', OWNER.get(), task={tname!r})\n")
        exec(src, ns)  # noqa: S102
        g = ns["shadow_" + tname]
        g.__module__ = "mon.worker_harness"
        async_shared_broker.register_task(g, task_name=tname)
        sc.shared_names.append(tname)
    for orig, repl in spec.get("overrides", {}).items():
        broker.dependency_overrides[ns[orig]] = ns[repl]


async def _dep_lat(lat: Any) -> None:
    if lat == "y":
        await asyncio.sleep(0)
    else:
        await asyncio.sleep(lat)


def _beh_for(sc: Scenario, tok: str) -> Dict[str, Any]:
    b = sc.beh.get(tok)
    if b is None:
        return {"dur": [], "out": "ok", "value": None}
    if isinstance(b, list):  # per-attempt behaviours
        n = sc.attempts.get(tok, 0)
        sc.attempts[tok] = n + 1
        return b[min(n, len(b) - 1)]
    return b


def _outcome(sc: Scenario, d: Any, tok: str, beh: Dict[str, Any], depvals: Any, echo: Any) -> Any:
    out = beh.get("out", "ok")
    if out == "ok":
        val: Any = {"tok": tok, "v": beh.get("value"), "deps": depvals, "echo": echo}
        sc.trace.add("task_end", d, how="return")
        if beh.get("ret_handle"):
            return _Handle(val)  # the function's return value is an object that happens to be awaitable (a handle, a future)
        if "ret_raw" in beh:
            # what the function returns is not of the type its annotation names (it is what it is)
            rv = beh["ret_raw"]
            return tuple(rv["__tuple__"]) if isinstance(rv, dict) and "__tuple__" in rv else rv
        if beh.get("ret_model"):
            # the function returns an object of the application's own (a pydantic model / a dataclass instance)
            return _ReqModel(name=tok) if beh["ret_model"] == "model" else _Unit(tok)
        if beh.get("ret_exc"):
            return ValueError("just a value", tok)  # an exception object as a *value* (collected, not raised)
        return val
    if out == "noresult":
        sc.trace.add("task_end", d, how="noresult")
        if beh.get("noresult_sub"):
            raise SkipResult  # an application's own spelling of the no-result signal
        raise NoResultError
    name = out.split(":", 1)[1]
    exc = EXC_POOL[name](tok, beh.get("value"))
    if d is not None:
        sc.raised[d] = exc
    sc.trace.add("task_end", d, how="raise", exc=name)
    raise exc


async def _run_beh(sc: Scenario, tok: str, args: Any, kwargs: Any, depvals: Any, echo: Any, pt: Any = None, ctx: Any = None) -> Any:
    d = OWNER.get()
    beh = _beh_for(sc, tok)
    sc.trace.add("task_start", d, tok=tok, args=safe_json(list(args)), kwargs=safe_json(kwargs),
                 echo=echo, deps=safe_json(depvals))
    if pt is not None:
        await pt.set_progress("STARTED", meta={"tok": tok})
    if beh.get("spawn") and ctx is not None:
        # the function sends another task from its body (a workflow step): that message is a message of its own
        ch = beh["spawn"]
        sc.beh[ch["tok"]] = ch.get("beh", {"dur": [], "out": "ok"})
        lab = dict(ch.get("labels", {}))
        lab["own"] = ch["tok"]
        sc.trace.add("spawn", d, child=ch["tok"])
        await AsyncKicker(ch["task"], ctx.broker, lab).with_task_id(ch["tok"]).kiq(ch["tok"])
        sc.trace.add("spawn_done", d, child=ch["tok"])
    try:
        for step in beh.get("dur", []):
            if step == "y":
                await asyncio.sleep(0)
            elif step == "never":
                await asyncio.get_running_loop().create_future()
            elif isinstance(step, str) and step.startswith("w"):
                # waits for a reply that only a weak registry knows about (request/response over a connection):
                # nothing but the worker's own bookkeeping keeps this task alive while it waits; the garbage
                # collector runs in the meantime
                import gc
                import weakref

                lp = asyncio.get_running_loop()
                fut = lp.create_future()
                reg = sc.__dict__.setdefault("weak_replies", weakref.WeakValueDictionary())
                key = (tok, len(sc.trace.ev))
                reg[key] = fut

                def _reply(key: Any = key) -> None:
                    gc.collect()
                    f = reg.get(key)
                    if f is not None and not f.done():
                        f.set_result(None)
                lp.call_later(float(step[1:]), _reply)
                await fut  # the frame of this coroutine (i.e. its task) is the only strong holder
            else:
                await asyncio.sleep(step)
    except asyncio.CancelledError:
        cleanup = beh.get("cleanup")
        if cleanup:
            # a task function that needs time to react to its cancellation (finally: await ...)
            sc.trace.add("task_cancelled", d)
            for step in cleanup:
                if step == "y":
                    await asyncio.sleep(0)
                else:
                    await asyncio.sleep(step)
        sc.trace.add("task_end", d, how="cancelled")
        raise
    if beh.get("out") == "requeue" and ctx is not None:
        # the function hands its message back to the broker (Context.requeue) - which ends it without a result
        sc.trace.add("requeue_begin", d)
        try:
            await ctx.requeue()
        except asyncio.CancelledError:
            sc.trace.add("task_end", d, how="cancelled")
            raise
        except NoResultError:
            sc.trace.add("task_end", d, how="noresult")
            raise
    if pt is not None:
        await pt.set_progress("FINISHING")  # state only: keeps the meta reported earlier for *this* task id
        pr = await pt.get_progress()
        sc.trace.add("progress", d, tok=tok, meta=safe_json(pr.meta if pr else None), state=str(pr.state) if pr else None)
    return _outcome(sc, d, tok, beh, depvals, echo)


def _run_beh_sync(sc: Scenario, tok: str, args: Any, kwargs: Any, depvals: Any, echo: Any) -> Any:
    d = sc.tok_delivery.get(tok)
    beh = _beh_for(sc, tok)
    on_loop = threading.current_thread() is threading.main_thread()
    sc.trace.add("task_start", d, tok=tok, args=safe_json(list(args)), kwargs=safe_json(kwargs),
                 echo=echo, deps=safe_json(depvals), thread=True, **({"on_loop_thread": True} if on_loop else {}))
    if beh.get("probe_loop") and not on_loop and sc.trace.loop is not None:
        # is the worker's event loop alive while this function runs in its thread?  (a loop that waits for this very
        # function with a blocking call processes nothing else meanwhile, whatever the limits say)
        pinged = threading.Event()
        try:
            sc.trace.loop.call_soon_threadsafe(pinged.set)
            alive = pinged.wait(3.0)
        except RuntimeError:
            alive = True  # loop already closed: the run is over
        if not alive and not getattr(sc, "closing", False):
            sc.trace.add("loop_blocked", d, tok=tok)
    if on_loop:
        # a blocking function called on the event-loop thread: nothing else can happen in the worker meanwhile (recorded;
        # the harness does not block the loop on top of it)
        return _outcome(sc, d, tok, beh, depvals, echo)
    if beh.get("real_sleep"):
        _time.sleep(beh["real_sleep"])
    hold = beh.get("sync_hold")
    if hold:
        # block this executor thread for `hold` *virtual* seconds: the loop parks the in-flight
        # executor future (clock keeps advancing) and releases the gate from a virtual timer
        loop = sc.trace.loop
        gate = threading.Event()
        sc.keep.append(gate)

        def _unpark() -> None:
            loop._v_inflight += 1
            gate.set()

        def _park() -> None:
            loop._v_inflight -= 1
            loop.call_later(hold, _unpark)

        if getattr(sc, "closing", False):
            pass  # the run is over (the harness is tearing the worker down): nothing to wait for
        elif loop is not None and hasattr(loop, "_v_inflight"):
            loop.call_soon_threadsafe(_park)
            gate.wait(30)
        else:
            _time.sleep(min(hold, 0.2))
    return _outcome(sc, d, tok, beh, depvals, echo)


class _Handle(dict):
    """A return value that is awaitable: what the function returned is this object, not what awaiting it would give."""

    def __await__(self) -> Any:
        async def _r() -> str:
            return "AWAITED-PRODUCT"
        return _r().__await__()


def _twin_dep() -> str:
    return "twin-token"


class MonExecutor(ThreadPoolExecutor):
    """The worker's thread pool.  Joining it (shutdown(wait=True)) from a helper thread blocks that thread until the
    sync task functions have ended - for parked functions that takes virtual time, so the waiting thread is accounted
    like a parked one (the virtual clock keeps running) and the join is recorded."""

    sc: Any = None

    def shutdown(self, wait: bool = True, *, cancel_futures: bool = False) -> None:  # noqa: D102
        sc = self.sc
        loop = sc.trace.loop if sc is not None else None
        off_loop = loop is not None and hasattr(loop, "_v_inflight") and threading.current_thread() is not threading.main_thread()
        if not (wait and off_loop):
            return super().shutdown(wait=wait, cancel_futures=cancel_futures)

        def _dec() -> None:
            loop._v_inflight -= 1
            sc.trace.add("executor_join_begin")

        def _inc() -> None:
            loop._v_inflight += 1
            sc.trace.add("executor_join_end")

        loop.call_soon_threadsafe(_dec)
        try:
            return super().shutdown(wait=True, cancel_futures=cancel_futures)
        finally:
            try:
                loop.call_soon_threadsafe(_inc)
            except RuntimeError:
                pass  # the loop is gone


# ------------------------------------------------------------------------------------
# message construction


def build_payload(sc: Scenario, broker: AsyncBroker, m: Dict[str, Any], tok: str) -> bytes:
    kind = m.get("kind", "valid")
    if kind == "malformed":
        variants = [
            b"\xff\xfe not json",
            b"[1, 2, 3]",
            b'{"task_id": "x"}',
            b"",
            b'{"task_id": "%s", "task_name": "t_async", "labels": {"a": "q"}, '
            b'"labels_types": {"a": 2}, "args": [], "kwargs": {}}' % tok.encode(),
            b"-1", b"-2", b"null", b"{}", b"00", b"true", b'"-1"', b"-1 ",
            # well-formed JSON objects that are not messages: required parts are missing
            b'{"task_id": "%s", "task_name": "t_async", "labels": {}, "labels_types": null}' % tok.encode(),
            b'{"task_id": "%s", "task_name": "t_async", "labels": {}, "args": ["%s"]}' % (tok.encode(), tok.encode()),
            b'{"task_id": "%s", "task_name": "t_sync", "labels": {"own": "%s"}, "kwargs": {}}' % (tok.encode(), tok.encode()),
        ]
        return variants[m.get("variant", 0) % len(variants)]
    labels = dict(m.get("labels", {}))
    labels["own"] = tok
    if m.get("timeout") is not None:
        labels["timeout"] = str(m["timeout"]) if m.get("timeout_str") else m["timeout"]
    if m.get("timeout_raw") is not None:
        labels["timeout"] = m["timeout_raw"]
    tname = m.get("task", "t_async")
    if kind == "unknown":
        # names nobody registered - some of them close to a registered one (other module, other case, a prefix)
        tname = UNKNOWN_NAMES[m.get("variant", 0) % len(UNKNOWN_NAMES)]
    if m.get("raw_labels"):
        # a message from a producer that does not send labels_types (hand-built / older client)
        from taskiq.message import TaskiqMessage

        ltypes = None
        if m["raw_labels"] == "native":
            # ... or one that sends the type table with *native* JSON values (a client in another language)
            from taskiq.labels import LabelType

            labels.update({"n_i": 3, "n_f": 1.5, "n_t": True, "n_b": False})
            ltypes = {"n_i": LabelType.INT.value, "n_f": LabelType.FLOAT.value, "n_t": LabelType.BOOL.value, "n_b": LabelType.BOOL.value}
        raw = TaskiqMessage(task_id=m.get("task_id", tok), task_name=tname, labels=labels, labels_types=ltypes,
                            args=[tok] + list(m.get("args", [])), kwargs=dict(m.get("kwargs", {})))
        return broker.formatter.dumps(raw).message
    # task_id differs from the token only for re-deliveries (at-least-once brokers, ids re-used by the caller)
    kicker = AsyncKicker(tname, broker, labels).with_task_id(m.get("task_id", tok))
    msg = kicker._prepare_message(tok, *m.get("args", []), **m.get("kwargs", {}))
    if m.get("partial_types") and msg.labels_types:
        # labels added after the kicker typed them (e.g. by a pre_send middleware): no type entry.
        # Only str labels are un-typed here, they arrive as the same str either way.
        for k, v in labels.items():
            if isinstance(v, str):
                msg.labels_types.pop(k, None)
    return broker.formatter.dumps(msg).message


class _AltFormatter:
    """An application formatter whose wire format is not JSON (a prefix and a pickle)."""

    def dumps(self, message: Any) -> Any:
        import pickle

        from taskiq.compat import model_dump
        from taskiq.message import BrokerMessage

        return BrokerMessage(task_id=message.task_id, task_name=message.task_name,
                             message=b"ALT1" + pickle.dumps(model_dump(message)), labels=message.labels)

    def loads(self, message: bytes) -> Any:
        import pickle

        from taskiq.compat import model_validate
        from taskiq.message import TaskiqMessage

        if not message.startswith(b"ALT1"):
            raise ValueError("not an ALT1 frame")
        return model_validate(TaskiqMessage, pickle.loads(message[4:]))  # noqa: S301


def _set_wire_format(broker: Any, how: Optional[str], saved: Optional[Tuple[Any, Any]] = None) -> Tuple[Any, Any]:
    """Configure (or restore) the broker's formatter / serializer through the public with_* calls."""
    prev = (broker.formatter, broker.serializer)
    if saved is not None:
        broker.with_formatter(saved[0])
        broker.with_serializer(saved[1])
    elif how == "formatter":
        broker.with_formatter(_AltFormatter())
    elif how == "serializer":
        from taskiq.serializers import PickleSerializer

        broker.with_serializer(PickleSerializer())
    return prev


# ------------------------------------------------------------------------------------
# run


DEFAULT_TASKS = {"t_async": {"fn": "async"}, "t_sync": {"fn": "sync"}, "t_model": {"fn": "async", "model_param": True},
                 "t_ctx": {"fn": "async", "ctx": True},
                 "t_asyncified": {"fn": "async", "asyncified": True},
                 "t_plain": {"fn": "async", "plain_param": True}, "t_plain_sync": {"fn": "sync", "plain_param": True},
                 "t_annot": {"fn": "async", "annot_param": True},
                 "t_ret_int": {"fn": "async", "ret_ann": "int"}, "t_ret_list": {"fn": "sync", "ret_ann": "List[int]"},
                 "t_ret_dict": {"fn": "async", "ret_ann": "Dict[str, int]"}}


class RunResult:
    def __init__(self) -> None:
        self.trace: List[Dict[str, Any]] = []
        self.outcome = ""  # returned | raised | horizon | deadlock | budget | watchdog
        self.R: Optional[float] = None
        self.err: Optional[str] = None
        self.sc: Optional[Scenario] = None
        self.receiver: Any = None


def run_worker(spec: Dict[str, Any], real: bool = False) -> RunResult:
    """Interpret a worker scenario spec against the real Receiver.listen().

    real=True runs the same spec on the stock asyncio event loop in real time (fidelity cross-check
    of the virtual-time loop; only for short, tie-free scenarios)."""
    sc = Scenario(spec)
    rr = RunResult()
    rr.sc = sc
    cfg = spec.get("cfg", {})
    executor = MonExecutor(max_workers=cfg.get("threads", 4))
    executor.sc = sc

    async def main(loop: Any) -> None:
        T0 = loop.time()
        if real:
            sc.trace.now = lambda: loop.time() - T0
        else:
            sc.trace.loop = loop
        inmem = spec.get("via") == "inmemory"
        if inmem:
            MonInMemoryBroker.sc = sc
            broker: Any = MonInMemoryBroker(
                cast_types=cfg.get("validate", True), max_async_tasks=cfg.get("A") or 30,
                propagate_exceptions=cfg.get("propagate", True), await_inplace=bool(spec.get("inplace")),
            )
        else:
            broker = ScriptedBroker(sc)
        if spec.get("worker_flag"):
            broker.is_worker_process = True
        bk_cls: Any = RecordingBackend
        if spec.get("backend", {}).get("kind") == "dummy_sub":
            # an application backend written as a subclass of the bundled DummyResultBackend that overrides the writes
            from taskiq.result_backends.dummy import DummyResultBackend

            bk_cls = type("RecordingAuditBackend", (RecordingBackend, DummyResultBackend), {})
        backend_obj = bk_cls(sc)
        # the wire format is configured after the worker object exists (builder-style configuration in any order):
        # everything is encoded in the final format, only the Receiver constructor sees the defaults
        fmt_late = spec.get("fmt_late") if (not inmem and spec.get("via") != "api") else None
        fmt_default = _set_wire_format(broker, fmt_late) if fmt_late else None
        late_backend = bool(spec.get("backend", {}).get("late")) and not inmem and spec.get("via") != "api"
        if not late_backend:
            broker.result_backend = backend_obj
        tasks = dict(DEFAULT_TASKS)
        tasks.update(spec.get("tasks", {}))
        spec_t = dict(spec)
        spec_t["tasks"] = tasks
        sc.spec = spec_t
        build_functions(sc, broker)
        sc.spec = spec
        mws = build_middlewares(sc)
        for extra in spec.get("_extra_mws", []):
            mws.append(extra)
        if spec.get("retry") is not None:
            from taskiq.middlewares.retry_middleware import SimpleRetryMiddleware

            r = spec["retry"]
            rcls: Any = SimpleRetryMiddleware
            if r.get("subclass"):
                # an application's own retry middleware: a subclass that customises nothing but its construction
                rcls = type("AppRetryMiddleware", (SimpleRetryMiddleware,), {"tag": "app"})
            if r.get("positional"):
                # the documented order of the options: (default_retry_count, default_retry_label, no_result_on_retry)
                rm = rcls(r.get("default_count", 3), r.get("default_label", False), r.get("no_result_on_retry", True))
            else:
                rm = rcls(
                    default_retry_count=r.get("default_count", 3),
                    default_retry_label=r.get("default_label", False),
                    no_result_on_retry=r.get("no_result_on_retry", True),
                )
            pos = r.get("pos", 0)
            if r.get("late"):
                # the middleware is added to the broker while the worker is already running: once the result of the
                # (failing) message "prime" has been written
                sc.late_rm = (broker, rm)  # type: ignore[attr-defined]
            else:
                mws.insert(min(pos, len(mws)), rm)
        if mws:
            reg = spec.get("mw_reg", "add")
            k_ = len(mws) // 2
            if reg == "with":
                broker.with_middlewares(*mws)
            elif reg == "split_with":  # configured in two steps: the second call adds to what the first registered
                broker.with_middlewares(*mws[:k_])
                broker.with_middlewares(*mws[k_:])
            elif reg == "add_then_with":
                broker.add_middlewares(*mws[:k_])
                broker.with_middlewares(*mws[k_:])
            else:
                broker.add_middlewares(*mws)
        if inmem:
            # (the broker built its own Receiver in __init__ from the constructor arguments above; it stays in place)
            if spec.get("im_startup", True):
                await broker.startup()  # what an application does once everything is configured

            handles: Dict[str, Any] = {}

            async def _send_im(idx: int, m: Dict[str, Any]) -> None:
                tok = m.get("tok") or f"m{idx}"
                sc.beh[tok] = m.get("beh", {"dur": [], "out": "ok"})
                if m.get("at"):
                    await asyncio.sleep(m["at"])
                labels = dict(m.get("labels", {}))
                labels["own"] = tok
                if m.get("timeout") is not None:
                    labels["timeout"] = str(m["timeout"]) if m.get("timeout_str") else m["timeout"]
                if m.get("timeout_raw") is not None:
                    labels["timeout"] = m["timeout_raw"]
                sc.trace.add("send_begin", None, tok=tok)
                try:
                    extra = [object()] if m.get("bad_arg") else []
                    handle = await AsyncKicker(m.get("task", "t_async"), broker, labels).with_task_id(tok).kiq(
                        tok, *m.get("args", []), *extra, **m.get("kwargs", {}))
                    handles[tok] = handle
                    sc.trace.add("send_ok", None, tok=tok)
                except BaseException as exc:  # noqa: BLE001
                    from taskiq.exceptions import SendTaskError

                    sc.trace.add("send_err", None, tok=tok, exc=type(exc).__name__, cause=type(exc.__cause__).__name__,
                                 is_send_error=isinstance(exc, SendTaskError))

            items = list(enumerate(spec.get("msgs", []))) + [(1000 + i, c) for i, c in enumerate(spec.get("client_sends", []))]
            await asyncio.gather(*[_send_im(i, m) for i, m in items if m.get("kind", "valid") == "valid"])
            if spec.get("gather"):
                # the client collects the results of all sends with taskiq.gather() while they are executing:
                # the k-th result must be the one of the k-th handle
                from taskiq import gather as tq_gather

                order = [t for t in spec["gather"] if t in handles]
                try:
                    res = await tq_gather(*[handles[t] for t in order], timeout=spec.get("horizon", 120.0), periodicity=0.02)
                    got = []
                    for r in res:
                        if r.is_err:
                            got.append(getattr(r.error, "args", [None])[0] if getattr(r.error, "args", None) else None)
                        else:
                            got.append(r.return_value.get("tok") if isinstance(r.return_value, dict) else None)
                    sc.trace.add("gather", None, want=order, got=safe_json(got))
                except BaseException as exc:  # noqa: BLE001
                    sc.trace.add("gather", None, want=order, got=None, exc=repr(exc))
            # drain: every execution task started by kick() (some may end with an exception: failing hooks)
            for _ in range(50):
                pending = list(broker._running_tasks)
                if not pending:
                    break
                await asyncio.wait(pending, timeout=spec.get("horizon", 120.0))
                for t in pending:
                    if t.done() and not t.cancelled():
                        t.exception()
            # a second, idle InMemoryBroker of the same process must not see any of this broker's results
            from taskiq import InMemoryBroker as _IMB

            other = _IMB()
            for tok_ in list(handles):
                try:
                    vis = await other.result_backend.is_result_ready(tok_)
                except Exception:  # noqa: BLE001
                    vis = False
                if vis:
                    sc.trace.add("foreign_result_visible", None, tok=tok_)
            sc.trace.add("foreign_backend_checked", None, n=len(handles))
            rr.outcome = "returned" if not broker._running_tasks else "horizon"
            rr.R = loop.time() - T0
            sc.trace.add("listen_" + rr.outcome, err=None)
            broker.executor.shutdown(wait=False)
            return
        # messages
        for idx, m in enumerate(spec.get("msgs", [])):
            tok = m.get("tok") or f"m{idx}"
            if m.get("dup_of") is not None:
                # the broker delivers a message a second time (at-least-once): byte-identical payload, own delivery
                src_info = sc.deliveries[m["dup_of"]]
                info = dict(src_info)
                info.update({"at": m.get("at", 0.0), "dup_of": m["dup_of"]})
                broker.new_delivery(info)
                continue
            sc.beh[tok] = m.get("beh", {"dur": [], "out": "ok"})
            info = {
                "tok": tok, "kind": m.get("kind", "valid"), "ackable": m.get("ackable", False),
                "ack_async": m.get("ack_async", False), "ack_lat": m.get("ack_lat", 0),
                "ack_kind": m.get("ack_kind"), "ack_raise": m.get("ack_raise", False),
                "at": m.get("at", 0.0), "task": m.get("task", "t_async"),
            }
            broker.new_delivery(info)
            info["payload"] = build_payload(sc, broker, m, tok)
        broker.script_left = len(spec.get("msgs", []))
        for info in list(sc.deliveries):
            if info["at"] <= 0:
                broker._arrive(info)
            else:
                loop.call_at(T0 + info["at"], broker._arrive, info)
        sends = spec.get("client_sends", [])
        if sends:
            broker2 = None
            if any(s.get("via_broker2") for s in sends):
                sc2 = sc
                broker2 = ScriptedBroker(sc2)
                broker2.loopback = False
                broker2.kick_fail = []
                mws2 = []
                for j, mw2 in enumerate(spec.get("mws2", [])):
                    attrs2 = {hook: _make_hook(sc, 100 + j, hook, hs) for hook, hs in mw2.items()}
                    mws2.append(type(f"RecMwB{j}", (TaskiqMiddleware,), attrs2)())
                if mws2:
                    broker2.add_middlewares(*mws2)

            async def _send(s: Dict[str, Any]) -> None:
                tok = s["tok"]
                sc.beh[tok] = s.get("beh", {"dur": [], "out": "ok"})
                if s.get("at"):
                    await asyncio.sleep(s["at"])
                sc.trace.add("send_begin", None, tok=tok)
                labels = dict(s.get("labels", {}))
                labels["own"] = tok
                try:
                    if s.get("via_with_labels"):
                        # labels given per call, the way applications do it: task.kicker().with_labels(**labels)
                        kk = AsyncKicker(s.get("task", "t_async"), broker, {}).with_labels(**labels).with_task_id(tok)
                    else:
                        kk = AsyncKicker(s.get("task", "t_async"), broker, labels).with_task_id(tok)
                    if s.get("via_broker2") and broker2 is not None:
                        kk = kk.with_broker(broker2)  # the receiving broker's middlewares must run
                    extra = [object()] if s.get("bad_arg") else []  # an argument no serializer can encode
                    await kk.kiq(tok, *s.get("args", []), *extra, **s.get("kwargs", {}))
                    sc.trace.add("send_ok", None, tok=tok)
                except BaseException as exc:  # noqa: BLE001
                    from taskiq.exceptions import SendTaskError

                    sc.trace.add("send_err", None, tok=tok, exc=type(exc).__name__,
                                 cause=type(exc.__cause__).__name__, is_send_error=isinstance(exc, SendTaskError))
            await asyncio.gather(*[_send(s) for s in sends if not s.get("late")])
            for s_late in [s for s in sends if s.get("late")]:
                # sent while the worker is running (the client calls the task again later)
                loop.call_at(T0 + s_late["at"], lambda s_late=s_late: sc.keep.append(asyncio.ensure_future(_send(dict(s_late, at=0)))))
        for ft in spec.get("stream_faults", []):
            loop.call_at(T0 + ft, broker._fault)
        for at, f, tname, labels in sc.late:
            def _reg(f: Any = f, tname: str = tname, labels: Any = labels) -> None:
                broker.register_task(f, task_name=tname, **labels)
                sc.trace.add("register", None, task=tname)
            loop.call_at(T0 + at, _reg)
        ack = AcknowledgeType(cfg.get("ack", "when_saved"))
        MonReceiver.sc = sc
        if spec.get("via") == "api":
            # the programmatic entry point taskiq.api.run_receiver_task builds the Receiver itself and
            # listens forever; the run ends at the horizon by cancelling it
            from taskiq.api import run_receiver_task

            t = asyncio.ensure_future(run_receiver_task(
                broker, receiver_cls=MonReceiver, sync_workers=cfg.get("threads", 4),
                validate_params=cfg.get("validate", True), max_async_tasks=cfg["A"], max_prefetch=cfg.get("P", 0),
                propagate_exceptions=cfg.get("propagate", True), run_startup=False, ack_time=ack))
            done, _ = await asyncio.wait({t}, timeout=spec.get("horizon", 120.0))
            if done and not t.cancelled() and t.exception() is not None:
                rr.outcome = "raised"
                rr.err = repr(t.exception())
            else:
                rr.outcome = "api-horizon"
            rr.R = loop.time() - T0
            sc.trace.add("listen_" + rr.outcome, err=rr.err)
            sc.closing = True  # type: ignore[attr-defined]  (functions started from now on do not park their thread)
            for g in sc.keep:
                if isinstance(g, threading.Event):
                    g.set()  # executor threads parked for virtual time: run_receiver_task joins its pool on exit
            t.cancel()
            try:
                await asyncio.wait({t}, timeout=1)
            except BaseException:  # noqa: BLE001
                pass
            return
        fmt_final = _set_wire_format(broker, None, fmt_default) if fmt_late else None
        ctor_a: List[Any] = []
        ctor_kw: Dict[str, Any] = {"broker": broker, "executor": None if cfg.get("no_executor") else executor,
                                   "validate_params": cfg.get("validate", True), "max_async_tasks": cfg.get("A"),
                                   "max_prefetch": cfg.get("P", 0)}
        if cfg.get("ctor_positional"):
            # the documented parameter order, used positionally: Receiver(broker, executor, validate_params, A, P, ...)
            ctor_a = [ctor_kw.pop(k_) for k_ in ("broker", "executor", "validate_params", "max_async_tasks", "max_prefetch")]
        receiver = MonReceiver(
            *ctor_a,
            **ctor_kw,
            propagate_exceptions=cfg.get("propagate", True),
            run_startup=False,
            ack_type=ack,
            max_tasks_to_execute=cfg.get("N"),
            wait_tasks_timeout=cfg.get("W"),
        )
        receiver.sc = sc
        rr.receiver = receiver
        if fmt_late:
            _set_wire_format(broker, None, fmt_final)
            sc.trace.add("wire_format_late", None, how=fmt_late)
        if spec.get("twin_receiver"):
            # a second worker object in this process: its broker has tasks of the same names with another signature
            from mon.args_labels import PlainBroker

            twin_b = PlainBroker()
            for tn in list(tasks):
                def _twin(tok: Any, *a: Any, token: str = TaskiqDepends(_twin_dep), **k: Any) -> str:
                    return "twin"
                _twin.__name__ = "twin_" + tn
                _twin.__module__ = "mon.worker_harness"
                twin_b.register_task(_twin, task_name=tn)
            rr.twin = Receiver(broker=twin_b, run_startup=False, max_async_tasks=1)  # type: ignore[attr-defined]
            if spec["twin_receiver"] == "busy":
                # ... which is listening too, and busy with a task of its own that never ends
                async def _twin_forever(tok: Any = None) -> None:
                    await asyncio.get_running_loop().create_future()
                _twin_forever.__module__ = "mon.worker_harness"
                twin_b.register_task(_twin_forever, task_name="twin_forever")
                one = twin_b.formatter.dumps(AsyncKicker("twin_forever", twin_b, {})._prepare_message()).message

                async def _twin_listen() -> Any:
                    yield one
                    await asyncio.get_running_loop().create_future()
                twin_b.listen = _twin_listen  # type: ignore[method-assign]
                rr.twin_listen = asyncio.ensure_future(rr.twin.listen(asyncio.Event()))  # type: ignore[attr-defined]
                sc.keep.append(rr.twin_listen)
        if late_backend:
            broker.with_result_backend(backend_obj)  # configured after the receiver object exists
        finish = asyncio.Event()
        if spec.get("stop_at") is not None:
            def _stop() -> None:
                sc.trace.add("stop")
                finish.set()
            if spec["stop_at"] <= 0:
                _stop()
            else:
                loop.call_at(T0 + spec["stop_at"], _stop)
        listen_task = asyncio.ensure_future(receiver.listen(finish))
        horizon = spec.get("horizon", 120.0)
        done, _ = await asyncio.wait({listen_task}, timeout=horizon)
        if done:
            exc = listen_task.exception() if not listen_task.cancelled() else None
            if listen_task.cancelled():
                rr.outcome = "raised"
                rr.err = "CancelledError"
            elif exc is not None:
                rr.outcome = "raised"
                rr.err = repr(exc)
            else:
                rr.outcome = "returned"
            rr.R = loop.time() - T0
            sc.trace.add("listen_" + rr.outcome, err=rr.err)
            # let leftovers (un-awaited callback tasks after W) run a little: not needed
        else:
            rr.outcome = "horizon"
            sc.trace.add("horizon")
            listen_task.cancel()
            try:
                await asyncio.wait({listen_task}, timeout=1)
            except BaseException:  # noqa: BLE001
                pass

    try:
        if real:
            loop = asyncio.new_event_loop()
            try:
                loop.run_until_complete(main(loop))
            finally:
                try:
                    for t in asyncio.all_tasks(loop):
                        t.cancel()
                    loop.run_until_complete(asyncio.sleep(0))
                except BaseException:  # noqa: BLE001
                    pass
                loop.close()
        else:
            run_virtual(main, step_budget=spec.get("steps", 400_000))
    except VirtualDeadlock as exc:
        rr.outcome = "deadlock"
        rr.err = str(exc)
        sc.trace.add("deadlock")
    except StepBudgetExceeded as exc:
        rr.outcome = "budget"
        rr.err = str(exc)
    except WallWatchdog as exc:
        rr.outcome = "watchdog"
        rr.err = str(exc)
    except (SystemExit, KeyboardInterrupt, GeneratorExit) as exc:
        # an exception raised by a task function escaped into the event loop itself and stopped it: in a real
        # worker process that ends the worker
        rr.outcome = "loop-killed"
        rr.err = repr(exc)
        sc.trace.add("loop_killed", err=rr.err)
    finally:
        for g in sc.keep:
            if isinstance(g, threading.Event):
                g.set()  # release executor threads still parked on a virtual-time gate
        executor.shutdown(wait=False, cancel_futures=True)
        for nm in sc.shared_names:
            AsyncBroker.global_task_registry.pop(nm, None)
    rr.trace = sc.trace.ev
    return rr
