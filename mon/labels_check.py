"""C09: labels keep value and type end to end; kicker customisation never leaks."""
from __future__ import annotations

import asyncio
import copy
import datetime
import math
import random
from concurrent.futures import ThreadPoolExecutor
from typing import Any, Dict, Iterator, List

from taskiq import Context, ScheduleSource, TaskiqDepends, TaskiqMiddleware
from taskiq.acks import AcknowledgeType
from taskiq.middlewares.retry_middleware import SimpleRetryMiddleware

from mon.args_labels import FORMATS, PlainBroker, jsonable, set_format, strict_eq
from mon.runner import CaseResult, Check, Violation, jhash
from mon.vloop import run_virtual
from mon.worker_harness import OWNER, MonReceiver, RecordingBackend, Scenario, ScriptedBroker

BOOKKEEPING = ("_retries", "X-Taskiq-requeue")


def gen_label_value(rng: random.Random) -> Any:
    t = rng.choice(["int", "float", "bool", "str", "bytes"])
    if t == "int":
        return rng.choice([0, 1, -1, 42, 2 ** 63, -(2 ** 64), 2 ** 4000, -(2 ** 3999) + 7, 10 ** 18, rng.randint(-10 ** 9, 10 ** 9),
                           2 ** 53 + 1, 1727500000123456789, -(2 ** 62) - 3])
    if t == "float":
        return rng.choice([0.0, -0.0, 1.5, -2.25, 1e308, 5e-324, 2.2250738585072014e-308, float("inf"), float("-inf"),
                           float("nan"), 0.1, 1e-7, 123456789.123456789, rng.random() * 10 ** rng.randint(-20, 20)])
    if t == "bool":
        return rng.random() < 0.5
    if t == "str":
        return rng.choice(["", "a", "True", "false", "12", "1.5", "ünï©ødé ∆ 𝄞", "line\nbreak", "\x00\x7f", " sp ", "null",
                           "a" * 500, "‮ rtl", "tab\t\"q\"\\", "cut \ud83d", "\udc00x",
                           # text that is not in a unicode normal form (decomposed accents, compatibility characters)
                           "Ame\u0301lie", "10 k\u2126", "1 \u212b", "\uf900", "\u1112\u1161\u11ab", "\ufb01n"])
    return rng.choice([b"", b"a", b"\x00", b"\xff\xfe\x00", b"utf8 ok", "ü".encode(), bytes(range(256)), b"=" * 7])


def enc_label(v: Any) -> Any:
    if isinstance(v, bytes):
        return {"$b": v.hex()}
    if isinstance(v, float):
        return {"$f": v.hex() if not math.isnan(v) else "nan"}
    if isinstance(v, bool):
        return v
    if isinstance(v, int):
        return {"$i": str(v)} if abs(v) > 2 ** 53 else v
    return v


def dec_label(v: Any) -> Any:
    if isinstance(v, dict):
        if "$b" in v:
            return bytes.fromhex(v["$b"])
        if "$f" in v:
            return float("nan") if v["$f"] == "nan" else float.fromhex(v["$f"])
        if "$i" in v:
            return int(v["$i"])
    return v


def gen_labels(rng: random.Random, names: List[str], n: int) -> Dict[str, Any]:
    out = {nm: enc_label(gen_label_value(rng)) for nm in rng.sample(names, min(n, len(names)))}
    if rng.random() < 0.08:
        # a label the worker itself reads (the execution time limit) is a user label like any other
        out["timeout"] = enc_label(rng.choice([500, "600", 450.5, 10 ** 6]))
    return out


def gen_c09_spec(rng: random.Random) -> Dict[str, Any]:
    names = [f"l{i}" for i in range(6)]
    if rng.random() < 0.3:
        # user labels that merely look like the library's own bookkeeping labels (tracing headers, private tags)
        names = names[:3] + ["_tenant", "__s", "X-Taskiq-origin", "x-request-id", "_retries_seen", "X-Taskiq-requeue-at"]
    declared = gen_labels(rng, names, rng.randint(0, 4))
    use_retry = rng.random() < 0.6
    shared: Any = rng.random() < 0.2
    if shared and rng.random() < 0.4:
        shared = "nodefault"  # a shared task whose shared broker was never given a default: every send names its broker
    ops = []
    for i in range(rng.randint(2, 8)):
        kind = rng.choice(["kiq", "kiq", "labels", "labels", "labels", "task_id", "broker", "labels+task_id", "reuse", "reuse+labels",
                           "created_time+labels", "created_cron+labels", "created_time"])
        op: Dict[str, Any] = {"kind": kind}
        if "labels" in kind:
            op["labels"] = gen_labels(rng, names, rng.randint(1, 3))
        if "task_id" in kind:
            op["task_id"] = f"custom-{i}"
        acts = []
        for _ in range(rng.choice([0, 0, 1, 2, 3])):
            acts.append(rng.choice(["requeue", "fail"] if use_retry else ["requeue"]))
        if rng.random() < 0.15 and use_retry:
            acts = ["fail"] * rng.randint(1, 3)
        acts.append("ok")
        op["acts"] = acts if kind != "broker" else []
        ops.append(op)
    fmt = rng.choice(FORMATS)
    fmt2 = rng.choice([fmt] + FORMATS)  # the wire format of the second broker (a per-send override target)
    if "jsonformatter" in (fmt, fmt2):
        # JSONFormatter encodes with pydantic's JSON text encoder, which needs valid UTF-8 (same mechanism as C19's
        # F9): lone surrogates are generated for the serializer-based formats only
        def _clean(d: Dict[str, Any]) -> None:
            for k_, x_ in list(d.items()):
                if isinstance(x_, str) and any(0xD800 <= ord(ch) <= 0xDFFF for ch in x_):
                    d[k_] = "cut"
        _clean(declared)
        for op_ in ops:
            _clean(op_.get("labels", {}))
    drop = None
    if declared and rng.random() < 0.15:
        drop = next(iter(declared))  # the first declared label (first in the type table as well)
    spec: Dict[str, Any] = {
        "drop": drop,
        "declared": declared, "ops": ops, "fmt": fmt, "fmt2": fmt2, "use_retry": use_retry, "shared": shared, "validate": rng.random() < 0.75, "stamp": rng.random() < 0.2,
        "retry_labels": rng.choice(["declared", "op"]),
        "no_result_on_retry": rng.random() < 0.5,
        "A": rng.choice([1, 2, None]),
        # the control labels of the retry middleware are user labels too (value and type must survive)
        "retry_flag": rng.choice([True, True, "true", "True", "TRUE"]),
        "retry_max": rng.choice([20, 20, "20"]),
    }
    return spec


def user_labels(labels: Dict[str, Any]) -> Dict[str, Any]:
    return {k: v for k, v in labels.items() if k not in BOOKKEEPING}


def labels_eq(a: Dict[str, Any], b: Dict[str, Any]) -> bool:
    return set(a) == set(b) and all(strict_eq(a[k], b[k]) for k in a)


def has_fragile(labels: Dict[str, Any]) -> bool:
    for v in labels.values():
        if isinstance(v, bytes):
            return True
        if isinstance(v, float) and (math.isnan(v) or math.isinf(v)):
            return True
    return False


def run_c09(spec: Dict[str, Any]) -> "tuple[List[Violation], Dict[str, Any]]":
    v: List[Violation] = []
    sc = Scenario({"loopback": True, "end_stream": False, "backend": {}})
    obs: Dict[str, Any] = {"deliveries": 0, "sends": 0, "events": []}
    seen: Dict[str, List[Dict[str, Any]]] = {}  # task_id -> observations per delivery
    executor = ThreadPoolExecutor(1)
    declared = {k: dec_label(x) for k, x in spec["declared"].items()}
    retry_extra = {"retry_on_error": spec.get("retry_flag", True), "max_retries": spec.get("retry_max", 20)}
    if spec["use_retry"] and spec["retry_labels"] == "declared":
        declared.update(retry_extra)

    async def main(loop: Any) -> None:
        sc.trace.loop = loop
        broker = ScriptedBroker(sc)
        broker.result_backend = RecordingBackend(sc)
        set_format(broker, spec["fmt"])
        broker2 = PlainBroker()
        set_format(broker2, spec.get("fmt2", spec["fmt"]))
        acts: Dict[str, List[str]] = {}

        class RecMw(TaskiqMiddleware):
            def pre_execute(self, message: Any) -> Any:
                seen.setdefault(message.task_id, []).append({"pre": dict(message.labels)})
                return message

            def post_execute(self, message: Any, result: Any) -> None:
                # what later hooks of the same delivery are handed (also after Context.requeue() re-sent it)
                g = seen.setdefault(message.task_id, [{}])[-1]
                g["post"] = dict(message.labels)
                g["post_result"] = dict(result.labels)

        class MemSource(ScheduleSource):
            def __init__(self) -> None:
                self.items: List[Any] = []

            async def get_schedules(self) -> List[Any]:
                return list(self.items)

            async def add_schedule(self, schedule: Any) -> None:
                self.items.append(schedule)

        mem_source = MemSource()

        class StampMw(TaskiqMiddleware):
            """A client-side tracing middleware: stamps a label on the outgoing message (no entry in the type table)."""

            def pre_send(self, message: Any) -> Any:
                message.labels["trace_id"] = "abc123"
                return message

        class DropMw(TaskiqMiddleware):
            """A client-side middleware that removes a (declared) label from the outgoing message: its entry in the
            type table stays behind."""

            def pre_send(self, message: Any) -> Any:
                message.labels.pop(spec["drop"], None)
                return message

        mws: List[Any] = [RecMw()] + ([StampMw()] if spec.get("stamp") else []) + ([DropMw()] if spec.get("drop") else [])
        if spec["use_retry"]:
            mws.append(SimpleRetryMiddleware(default_retry_count=3, default_retry_label=False,
                                             no_result_on_retry=spec["no_result_on_retry"]))
        broker.add_middlewares(*mws)

        async def lab_task(tok: str, ctx: Context = TaskiqDepends()) -> Any:
            tid = ctx.message.task_id
            seen.setdefault(tid, [{}])[-1]["ctx"] = dict(ctx.message.labels)
            a = acts[tid].pop(0) if acts.get(tid) else "ok"
            seen[tid][-1]["act"] = a
            if a == "requeue":
                await ctx.requeue()
            if a == "fail":
                raise ValueError(tok)
            return tok

        lab_task.__module__ = "mon.labels_check"
        if spec["shared"]:
            from taskiq.brokers.shared_broker import AsyncSharedBroker

            shared = AsyncSharedBroker()
            if spec["shared"] != "nodefault":
                shared.default_broker(broker)
            task = shared.register_task(lab_task, task_name="lab_task", **declared)
            # global registry is class-level: clean up at the end
        else:
            task = broker.register_task(lab_task, task_name="lab_task", **declared)
        before = copy.deepcopy(task.labels)
        send_info = []
        ids_seen = set()
        reused: Dict[str, Any] = {}
        for i, op in enumerate(spec["ops"]):
            k = task.kicker()
            over = {kk: dec_label(x) for kk, x in op.get("labels", {}).items()}
            if op["kind"].startswith("reuse"):
                # one kicker object used for several sends: every send is its own message (own generated id)
                if "k" not in reused:
                    reused["k"] = task.kicker()
                    reused["over"] = {}
                k = reused["k"]
                reused["over"].update(over)
                over = dict(reused["over"])
            if spec["use_retry"] and spec["retry_labels"] == "op":
                over.update(retry_extra)
            if over:
                k = k.with_labels(**over)
            if spec["use_retry"] and spec["retry_labels"] == "op" and op["kind"].startswith("reuse"):
                reused["over"].update(retry_extra)
            if op.get("task_id"):
                k = k.with_task_id(op["task_id"])
            if op["kind"] == "broker":
                k = k.with_broker(broker2)
            elif spec["shared"] == "nodefault":
                k = k.with_broker(broker)
            n1, n2 = len(sc.kicked), len(broker2.sent)
            try:
                if op["kind"].startswith("created_time"):
                    # "kick the task as if you were not scheduling it": CreatedSchedule.kiq()
                    created = await k.schedule_by_time(mem_source, datetime.datetime(2031, 1, 1, tzinfo=datetime.timezone.utc), f"s{i}")
                    await created.kiq()
                elif op["kind"].startswith("created_cron"):
                    created = await k.schedule_by_cron(mem_source, "*/5 * * * *", f"s{i}")
                    await created.kiq()
                else:
                    await k.kiq(f"s{i}")
            except BaseException as exc:  # noqa: BLE001
                v.append(Violation("send-failed", f"op {i} {op['kind']}: kiq raised {exc!r}"))
                continue
            obs["sends"] += 1
            expect = dict(declared)
            expect.update(over)
            if spec.get("stamp") and op["kind"] != "broker":
                expect["trace_id"] = "abc123"  # (a send to another broker goes through that broker's middlewares: none)
            if spec.get("drop") and op["kind"] != "broker":
                expect.pop(spec["drop"], None)
            new1, new2 = sc.kicked[n1:], broker2.sent[n2:]
            if op["kind"] == "broker":
                if len(new2) != 1 or new1:
                    v.append(Violation("broker-override-leak", f"op {i}: with_broker send went to main={len(new1)} other={len(new2)}"))
                    continue
                bm = new2[0]
            else:
                if len(new1) != 1 or new2:
                    v.append(Violation("broker-override-leak", f"op {i} ({op['kind']}): send went to main={len(new1)} other={len(new2)}"))
                    continue
                bm = new1[0]
            if op.get("task_id"):
                if bm.task_id != op["task_id"]:
                    v.append(Violation("task-id-override-lost", f"op {i}: custom id {op['task_id']} but sent {bm.task_id}"))
            elif bm.task_id.startswith("custom-"):
                v.append(Violation("task-id-override-leak", f"op {i}: no custom id requested but sent {bm.task_id}"))
            if bm.task_id in ids_seen:
                v.append(Violation("task-id-reused", f"op {i}: task id {bm.task_id} already used by another send"))
            ids_seen.add(bm.task_id)
            try:
                # (the receiving broker's own wire format is what its workers decode with)
                dm = (broker2 if op["kind"] == "broker" else broker).formatter.loads(bm.message)
                dm.parse_labels()
            except Exception as exc:  # noqa: BLE001
                v.append(Violation("sent-message-unparsable", f"op {i} ({op['kind']}): the message sent with labels {jsonable(expect)} cannot be decoded: {exc!r}"))
                continue
            if not labels_eq(dict(dm.labels), expect):
                kind = "kicker-labels-leak" if not labels_eq(task.labels, before) or set(dm.labels) - set(expect) else "send-labels-wrong"
                v.append(Violation(kind, f"op {i} ({op['kind']}): message carries labels {jsonable(dict(dm.labels))}, expected declared+own overrides {jsonable(expect)}"))
            if not labels_eq(task.labels, before):
                v.append(Violation("kicker-labels-leak", f"op {i} ({op['kind']}): task's declared labels changed from {jsonable(before)} to {jsonable(task.labels)}"))
            if op["kind"] != "broker":
                acts[bm.task_id] = list(op["acts"])
            send_info.append({"i": i, "id": bm.task_id, "expect": expect, "op": op})
        if spec["shared"] == "nodefault":
            # the per-send broker choices above were just that: the shared task still has no broker of its own
            n1, n2 = len(sc.kicked), len(broker2.sent)
            try:
                await task.kiq("probe")
                probe = "sent"
            except Exception as exc:  # noqa: BLE001
                probe = type(exc.__cause__ or exc).__name__
            obs["nodefault_probes"] = 1
            if probe == "sent" or len(sc.kicked) != n1 or len(broker2.sent) != n2:
                v.append(Violation("broker-override-leak", f"a plain send of a shared task without default broker went out "
                                   f"(main={len(sc.kicked) - n1} other={len(broker2.sent) - n2}, outcome {probe}): an earlier "
                                   f".with_broker() override outlived its send"))
                if len(sc.kicked) != n1:
                    sc.kicked.pop()
        # worker side
        MonReceiver.sc = sc
        # (parameter parsing on or off: labels are not parameters)
        receiver = MonReceiver(broker=broker, executor=executor, max_async_tasks=spec["A"], run_startup=False,
                               ack_type=AcknowledgeType.WHEN_SAVED, validate_params=spec.get("validate", True))
        finish = asyncio.Event()
        loop.call_at(loop.time() + 15.0, finish.set)
        await asyncio.wait_for(receiver.listen(finish), timeout=100)
        if spec["shared"]:
            from taskiq.abc.broker import AsyncBroker

            AsyncBroker.global_task_registry.pop("lab_task", None)
        # judge deliveries
        results: Dict[str, List[Any]] = {}
        for d, tid, res in sc.saved:
            results.setdefault(tid, []).append(res)
        for si in send_info:
            if si["op"]["kind"] == "broker":
                continue
            tid, expect, want_acts = si["id"], si["expect"], si["op"]["acts"]
            got = seen.get(tid, [])
            obs["deliveries"] += len(got)
            fragile = has_fragile(expect)
            for j, g in enumerate(got):
                for where in ("pre", "ctx", "post", "post_result"):
                    if where in g and not labels_eq(user_labels(g[where]), expect):
                        after = want_acts[j - 1] if j else None
                        kind = "label-changed"
                        if "requeue" in want_acts[:j] and fragile:
                            kind = "requeue-breaks-typed-labels"
                        v.append(Violation(kind, f"send {si['i']} delivery {j} (after {after}): {where} labels {jsonable(user_labels(g[where]))} != sent {jsonable(expect)}"))
                        break
            if got and "pre" in got[0]:
                # the first delivery of a call carries no delivery counters: nobody has retried or requeued *it* yet
                stray = {k: got[0]["pre"][k] for k in BOOKKEEPING if k in got[0]["pre"]}
                if stray:
                    v.append(Violation("first-delivery-carries-counters-of-another-call", f"send {si['i']}: its first delivery arrived with {stray}"))
            for j, g in enumerate(got):
                # the retry counter of a result is the one the message arrived with: what the retry middleware adds for
                # the re-send belongs to the *next* delivery (requeue() counts on the received message itself before it
                # ends the execution without a result, so its counter is not compared)
                if "pre" in g and "post_result" in g:
                    b0 = {k: g["pre"].get(k) for k in ("_retries",) if k in g["pre"]}
                    b1 = {k: g["post_result"].get(k) for k in ("_retries",) if k in g["post_result"]}
                    if b0 != b1:
                        v.append(Violation("result-carries-labels-of-next-delivery", f"send {si['i']} delivery {j}: the message arrived with {b0}, its result carries {b1}"))
                        break
            done_acts = [g.get("act") for g in got]
            if done_acts != want_acts:
                # which step was lost / went wrong?
                j = len(got)
                prev = want_acts[j - 1] if 0 < j <= len(want_acts) else None
                kind = "delivery-lost"
                if "requeue" in want_acts[:j] and fragile:
                    kind = "requeue-breaks-typed-labels"
                v.append(Violation(kind, f"send {si['i']}: deliveries performed {done_acts}, expected {want_acts} (labels {jsonable(expect)}, fmt {spec['fmt']})"))
                continue
            rs = results.get(tid, [])
            if not rs or rs[-1].is_err:
                v.append(Violation("final-result-missing", f"send {si['i']}: no successful final result stored ({len(rs)} results)"))
            for r in rs:
                if not labels_eq(user_labels(dict(r.labels)), expect):
                    v.append(Violation("requeue-breaks-typed-labels" if ("requeue" in want_acts and fragile) else "result-labels-changed", f"send {si['i']}: stored result labels {jsonable(user_labels(dict(r.labels)))} != sent {jsonable(expect)}"))
                    break
        obs["events"] = [f"{e['t']:.3f} {e['k']} {e['m']}" for e in sc.trace.ev[:60]]

    try:
        run_virtual(main)
    except Exception as exc:  # noqa: BLE001  taskiq code raised where the property allows no failure
        import traceback

        tb = "".join(traceback.format_exception(exc))
        if "/mon/" in tb.splitlines()[-2] if len(tb.splitlines()) > 1 else False:
            raise
        v.append(Violation("unexpected-exception", f"{type(exc).__name__}: {exc} :: {tb[-600:]}"))
    finally:
        executor.shutdown(wait=False)
    return v, obs


class C09(Check):
    pid = "C09"
    rule = ("Case = one task declared with 0-4 labels over {int incl. +-2^4000, float incl. +-inf/nan/-0.0/subnormal, "
            "bool, str (unicode, control chars), bytes (empty, non-UTF-8, all 256 byte values)} on a normal or shared "
            "broker; history of 2-8 operations {kiq(), kicker().with_labels(..).kiq(), .with_task_id(), "
            ".with_broker(), one kicker reused, CreatedSchedule.kiq() after schedule_by_time/cron, combinations}; every send is followed by 0-3 Context.requeue() / SimpleRetryMiddleware "
            "retries through the looping scripted broker and the real Receiver.listen(); formatter in "
            "{Proxy+JSON, Proxy+pickle, JSONFormatter}. Oracle (type(x) is type(y), NaN by isnan, -0.0 by sign): "
            "labels seen by a pre_execute middleware, by Context inside the task, by post_execute (message and result, also "
            "after the task called requeue) and in every stored result equal "
            "declared+own overrides at every delivery (ignoring _retries / X-Taskiq-requeue); the task's declared "
            "labels are unchanged after every operation; custom task id / broker used by that send only; every "
            "scripted requeue/retry step is actually delivered. Non-trivial: >=1 with_labels op and >=1 "
            "requeue/retry; distinct = distinct (op kinds, label types, action lists, format).")
    floors = {"counters.deliveries": 5000, "counters.requeues": 800, "counters.retries": 500, "counters.sends": 5000}
    quick_cases = 5000
    thorough_cases = 100000
    assumptions = [
        "msgpack / orjson / cbor2 serializers are not installed in this sandbox and are not exercised",
        "lone-surrogate str labels are generated for the serializer-based formats (Proxy+JSON, Proxy+pickle) only: JSONFormatter uses pydantic's JSON text encoder, which rejects them; ints stay below CPython's 4300-digit str limit",
    ]

    def cases(self, rng: random.Random, tier: str, shard: int, nshards: int) -> Iterator[Any]:
        while True:
            yield gen_c09_spec(rng)

    def run_case(self, spec: Dict[str, Any]) -> CaseResult:
        cr = CaseResult()
        v, obs = run_c09(spec)
        cr.violations += v
        cr.counters["deliveries"] += obs["deliveries"]
        cr.counters["sends"] += obs["sends"]
        nrq = sum(op["acts"].count("requeue") for op in spec["ops"])
        nrt = sum(op["acts"].count("fail") for op in spec["ops"])
        cr.counters["requeues"] += nrq
        cr.counters["retries"] += nrt
        cr.counters["fmt_" + spec["fmt"]] += 1
        cr.events["delivery"] += obs["deliveries"]
        cr.nontrivial = any("labels" in op["kind"] for op in spec["ops"]) and (nrq + nrt) > 0
        ltypes = sorted({_ltype(x) for x in spec["declared"].values()} | {_ltype(x) for op in spec["ops"] for x in op.get("labels", {}).values()})
        cr.sig = jhash([[op["kind"] for op in spec["ops"]], [op["acts"] for op in spec["ops"]], ltypes, spec["fmt"], spec["shared"]])
        cr.trace = obs
        return cr

    def selftest(self) -> List[str]:
        if labels_eq({"a": 1}, {"a": True}) or labels_eq({"a": 0.0}, {"a": -0.0}) or not labels_eq({"a": float("nan")}, {"a": float("nan")}):
            return ["labels_eq broken"]
        return []


def _ltype(x: Any) -> str:
    if isinstance(x, dict):
        return next(iter(x))
    return type(x).__name__
