"""Real-process cross-check of the worker: `python -m taskiq worker mon.realbroker:broker ...` is started as a user
would start it (process manager, one forked worker process, real event loop, real thread / process pool, real signals),
fed a scripted stream and asked to stop with SIGINT / SIGTERM sent to the main process.

The oracle reads the event log the broker module writes (mon/realbroker.py).  It decides on the *order* of the log
lines, never on wall-clock distances: the instant "shutdown was requested" is the line the worker's own signal handler
wrote.  Wall-clock time is only a watchdog; a run that the watchdog ends is inconclusive, not a violation.

Checked (C05 through the production entry point, plus the C02/C03/C04 bounds on the same log):
  * after the shutdown request at most one further message is taken from the stream;
  * every message taken is run to completion - task function started, ended, then acknowledged - before the broker
    is shut down and the process exits (unless --wait-tasks-timeout is set and the task outlives it);
  * never more than --max-async-tasks task functions at once, never more than A+P+1 unfinished messages;
  * the worker is not restarted, the main process exits with status 0.
"""
from __future__ import annotations

import json
import os
import random
import shutil
import signal
import subprocess
import sys
import tempfile
import time
from concurrent.futures import ThreadPoolExecutor
from typing import Any, Dict, List, Optional

VERIF = os.path.dirname(os.path.dirname(os.path.abspath(__file__)))
REPO = os.environ.get("VERIF_REPO", "/repo")
LONG = 600.0


def gen_real_spec(rng: random.Random) -> Dict[str, Any]:
    A = rng.choice([1, 2, 4])
    P = rng.choice([0, 1, 2])
    n = rng.randint(6, 12)
    pool = rng.random() < 0.2
    t = 0.0
    msgs = []
    for i in range(n):
        t += rng.choice([0.0, 0.05, 0.1, 0.2, 0.3])
        task = rng.choice(["t_async", "t_async", "t_sync"])
        msgs.append({"tok": f"m{i}", "at": round(t, 3), "task": task, "dur": rng.choice([0.02, 0.1, 0.3, 0.6]),
                     "ack": rng.choice(["sync", "async"])})
    spec: Dict[str, Any] = {"A": A, "P": P, "msgs": msgs, "stop_after": rng.choice([0.2, 0.5, 0.9, 1.4]),
                            "sig": rng.choice(["INT", "TERM"]), "use_process_pool": pool, "W": None}
    if rng.random() < 0.25:
        # a task that outlives the wait timeout (free slots remain, see finding F6)
        spec["A"] = 4
        spec["W"] = rng.choice([0.5, 1.0])
        k = rng.randrange(min(3, n))
        msgs[k]["task"] = "t_async"
        msgs[k]["dur"] = LONG
    return spec


def _read_log(path: str) -> List[Dict[str, Any]]:
    out = []
    try:
        with open(path) as f:
            for line in f:
                line = line.strip()
                if line:
                    try:
                        out.append(json.loads(line))
                    except ValueError:
                        pass
    except FileNotFoundError:
        pass
    return out


def run_real(spec: Dict[str, Any], watchdog: float = 60.0) -> Dict[str, Any]:
    work = tempfile.mkdtemp(prefix="verif_wreal_")
    res: Dict[str, Any] = {"inconclusive": None, "rc": None, "log": []}
    try:
        sp, lg = os.path.join(work, "spec.json"), os.path.join(work, "events.log")
        with open(sp, "w") as f:
            json.dump(spec, f)
        env = dict(os.environ)
        env.update({"VERIF_REAL_SPEC": sp, "VERIF_REAL_LOG": lg, "PYTHONPATH": f"{REPO}:{VERIF}", "PYTHONDONTWRITEBYTECODE": "1"})
        cmd = [sys.executable, "-m", "taskiq", "worker", "mon.realbroker:broker", "--workers", "1", "--no-configure-logging",
               "--max-async-tasks", str(spec["A"]), "--max-prefetch", str(spec["P"]), "--shutdown-timeout", "5"]
        if spec.get("W") is not None:
            cmd += ["--wait-tasks-timeout", str(spec["W"])]
        if spec.get("use_process_pool"):
            cmd += ["--use-process-pool", "--max-process-pool-processes", "4"]
        errf = open(os.path.join(work, "stderr.txt"), "w")
        proc = subprocess.Popen(cmd, cwd=work, env=env, stdout=errf, stderr=subprocess.STDOUT, start_new_session=True)
        try:
            t0 = time.monotonic()
            started = None
            while time.monotonic() - t0 < watchdog / 2:
                started = next((e for e in _read_log(lg) if e["k"] == "listen_start"), None)
                if started or proc.poll() is not None:
                    break
                time.sleep(0.02)
            if not started:
                res["inconclusive"] = f"worker did not start listening (rc={proc.poll()})"
                return res
            time.sleep(spec["stop_after"])
            proc.send_signal(signal.SIGINT if spec["sig"] == "INT" else signal.SIGTERM)
            res["t_sent"] = time.monotonic()
            try:
                res["rc"] = proc.wait(timeout=watchdog)
            except subprocess.TimeoutExpired:
                # bounded progress instead of a wall-clock verdict: it is a violation only if the worker's own log shows
                # that it saw the request, has nothing left to do (every message it took is acknowledged) and has been
                # silent for at least half of the watchdog; anything else is inconclusive
                lg_now = _read_log(lg)
                wsig = any(e["k"] == "signal" for e in lg_now)
                taken = {e["tok"] for e in lg_now if e["k"] == "yield"}
                acked = {e["tok"] for e in lg_now if e["k"] == "ack"}
                quiet = time.monotonic() - max([e["t"] for e in lg_now] + [res["t_sent"]])
                if wsig and (taken <= acked or spec.get("W") is not None) and quiet >= watchdog / 2:
                    res["hung"] = (f"the worker saw the stop request, finished and acknowledged all {len(taken)} messages it had taken "
                                   f"and then did nothing for {quiet:.0f} s: `taskiq worker` never exited")
                else:
                    res["inconclusive"] = f"main process still alive {watchdog:.0f} s after {spec['sig']}"
        finally:
            if proc.poll() is None:
                try:
                    os.killpg(proc.pid, signal.SIGKILL)
                except ProcessLookupError:
                    pass
                proc.wait()
            else:
                try:
                    os.killpg(proc.pid, signal.SIGKILL)  # stragglers (pool processes) of a finished run
                except ProcessLookupError:
                    pass
            errf.close()
        res["log"] = _read_log(lg)
        try:
            res["stderr_tail"] = open(os.path.join(work, "stderr.txt")).read()[-1500:]
        except OSError:
            res["stderr_tail"] = ""
        return res
    finally:
        shutil.rmtree(work, ignore_errors=True)


def oracle_real(spec: Dict[str, Any], res: Dict[str, Any]) -> List[str]:
    """Returns violation messages (empty = held on this run).  Only the order of the log lines is used."""
    v: List[str] = []
    log = res["log"]
    if res.get("hung"):
        return [res["hung"]]
    starts = [e for e in log if e["k"] == "listen_start"]
    if len(starts) != 1:
        v.append(f"the worker process started listening {len(starts)} times (it must not be restarted during a graceful stop)")
        return v
    wpid = starts[0]["pid"]
    long_toks = {m["tok"] for m in spec["msgs"] if m["dur"] >= LONG}
    A, P = spec["A"], spec["P"]
    sig_i = next((i for i, e in enumerate(log) if e["k"] == "signal" and e["pid"] == wpid), None)
    if sig_i is None:
        v.append("the worker process never saw a stop signal although the main process was signalled and exited")
        return v
    after = [e["tok"] for e in log[sig_i + 1:] if e["k"] == "yield"]
    if len(after) > 1:
        v.append(f"{len(after)} messages were taken from the stream after the worker's signal handler ran: {after[:6]}")
    yielded = [e["tok"] for e in log if e["k"] == "yield"]
    pos: Dict[str, Dict[str, int]] = {}
    for i, e in enumerate(log):
        if "tok" in e:
            pos.setdefault(e["tok"], {}).setdefault(e["k"], i)
    bs = next((i for i, e in enumerate(log) if e["k"] == "broker_shutdown"), None)
    for tok in yielded:
        p = pos.get(tok, {})
        missing = [k for k in ("task_start", "task_end", "ack") if k not in p]
        if missing and spec.get("W") is not None:
            continue  # a wait timeout is set and one task outlives it: what is unfinished when it elapses is abandoned
        if missing:
            v.append(f"message {tok} was taken by the worker but {missing} never happened before the process exited")
            continue
        if not (p["yield"] < p["task_start"] < p["task_end"] < p["ack"]):
            v.append(f"message {tok}: order of events is {sorted(p, key=p.get)} (expected yield, task_start, task_end, ack)")
        if bs is not None and p["ack"] > bs and spec.get("W") is None:
            # (with a wait timeout, an execution that was still unfinished when it elapsed is abandoned: it may end - and
            # acknowledge - while the process is already shutting the broker down)
            v.append(f"message {tok} was acknowledged after the broker had been shut down")
    if bs is None:
        v.append("the broker was never shut down")
    running: set = set()
    unfinished: set = set()
    for e in log:
        k = e["k"]
        if k == "task_start":
            running.add(e["tok"])
            if len(running) > A:
                v.append(f"{len(running)} task functions running at once with --max-async-tasks {A}")
                break
        elif k == "task_end":
            running.discard(e["tok"])
        elif k == "yield":
            unfinished.add(e["tok"])
            if len(unfinished) > A + P + 1:
                v.append(f"{len(unfinished)} unfinished messages with --max-async-tasks {A} --max-prefetch {P}")
                break
        elif k == "ack":
            unfinished.discard(e["tok"])
    if res["rc"] != 0:
        v.append(f"`taskiq worker` exited with status {res['rc']} after a graceful stop")
    return v


def cross_check(n: int, seed: int, parallel: int = 4) -> Dict[str, Any]:
    rng = random.Random(seed)
    specs = [gen_real_spec(rng) for _ in range(n)]
    if specs:
        # one run per batch goes through --use-process-pool with sync functions among the first messages (they are
        # pickled into the pool's processes)
        specs[0]["use_process_pool"] = True
        for m_ in specs[0]["msgs"][:4:2]:
            if m_["dur"] != LONG:
                m_["task"] = "t_sync"
    out: Dict[str, Any] = {"real_worker_runs": 0, "real_worker_inconclusive": 0, "real_worker_violations": 0,
                           "real_worker_messages_taken": 0, "real_worker_stop_requests_seen": 0,
                           "real_worker_runs_with_message_taken_after_request": 0, "real_worker_process_pool_runs": 0,
                           "real_worker_wait_timeout_runs": 0}
    with ThreadPoolExecutor(max_workers=parallel) as ex:
        results = list(ex.map(run_real, specs))
    for spec, res in zip(specs, results):
        if res["inconclusive"]:
            out["real_worker_inconclusive"] += 1
            out.setdefault("first_inconclusive", res["inconclusive"])
            continue
        out["real_worker_runs"] += 1
        log = res["log"]
        out["real_worker_messages_taken"] += sum(1 for e in log if e["k"] == "yield")
        sig_i = next((i for i, e in enumerate(log) if e["k"] == "signal"), None)
        if sig_i is not None:
            out["real_worker_stop_requests_seen"] += 1
            if any(e["k"] == "yield" for e in log[sig_i + 1:]):
                out["real_worker_runs_with_message_taken_after_request"] += 1
        out["real_worker_process_pool_runs"] += 1 if spec.get("use_process_pool") else 0
        out["real_worker_wait_timeout_runs"] += 1 if spec.get("W") is not None else 0
        bad = oracle_real(spec, res)
        if bad:
            out["real_worker_violations"] += 1
            out.setdefault("first", {"msg": bad[0], "spec": spec, "log": [f"{e['k']} {e.get('tok', '')} pid={e['pid']}" for e in log][:120],
                                     "stderr": res.get("stderr_tail", "")[-600:]})
    return out


if __name__ == "__main__":
    sys.path.insert(0, VERIF)
    r = cross_check(int(sys.argv[1]) if len(sys.argv) > 1 else 4, int(sys.argv[2]) if len(sys.argv) > 2 else 0)
    print(json.dumps(r, indent=1)[:4000])
