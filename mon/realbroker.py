"""Broker module loaded by a real `taskiq worker` process (see mon/worker_real.py).

The stream is scripted by the JSON file named in $VERIF_REAL_SPEC; every observable step (listen start, message
handed to the worker, task function start / end, acknowledgement, the worker's own signal handler being entered,
broker shutdown) is appended as one JSON line to $VERIF_REAL_LOG with O_APPEND, so that the order of the lines
written by the worker's event loop thread is the order in which things happened there.

Nothing in the repository is patched: start_listen() installs its signal handlers *before* it imports the broker
module, so this module wraps whatever handler it finds (the wrapper logs one line and calls the original).
"""
from __future__ import annotations

import asyncio
import json
import os
import signal
import time
from typing import Any, AsyncGenerator

from taskiq import AckableMessage, AsyncBroker
from taskiq.message import BrokerMessage, TaskiqMessage

SPEC = json.load(open(os.environ["VERIF_REAL_SPEC"]))
LOG = os.environ["VERIF_REAL_LOG"]


def log(kind: str, **kw: Any) -> None:
    line = json.dumps({"t": time.monotonic(), "k": kind, "pid": os.getpid(), **kw}) + "\n"
    fd = os.open(LOG, os.O_WRONLY | os.O_APPEND | os.O_CREAT, 0o644)
    try:
        os.write(fd, line.encode())
    finally:
        os.close(fd)


def _wrap(signum: int) -> None:
    prev = signal.getsignal(signum)
    if not callable(prev):
        return

    def handler(s: int, f: Any) -> Any:
        log("signal", sig=int(s))
        return prev(s, f)

    signal.signal(signum, handler)


for _s in (signal.SIGINT, signal.SIGTERM, signal.SIGHUP):
    try:
        _wrap(_s)
    except ValueError:  # not the main thread (never the case in a worker process)
        pass


class ScriptBroker(AsyncBroker):
    async def kick(self, message: BrokerMessage) -> None:
        return None

    async def listen(self) -> AsyncGenerator[Any, None]:
        log("listen_start")
        t0 = time.monotonic()
        for m in SPEC["msgs"]:
            delay = t0 + m["at"] - time.monotonic()
            if delay > 0:
                await asyncio.sleep(delay)
            msg = TaskiqMessage(task_id=m["tok"], task_name=m["task"], labels=m.get("labels", {}), labels_types=None,
                                args=[m["tok"], m["dur"]], kwargs={})
            data = self.formatter.dumps(msg).message

            if m.get("ack") == "async":
                async def ack(tok: str = m["tok"]) -> None:
                    log("ack", tok=tok)
            else:
                def ack(tok: str = m["tok"]) -> None:  # type: ignore[misc]
                    log("ack", tok=tok)

            log("yield", tok=m["tok"])
            yield AckableMessage(data=data, ack=ack)
        log("stream_idle")
        await asyncio.Event().wait()  # the stream stays open: only a shutdown request ends the worker

    async def shutdown(self) -> None:
        log("broker_shutdown")
        await super().shutdown()


broker = ScriptBroker()


@broker.task(task_name="t_async")
async def t_async(tok: str, dur: float) -> str:
    log("task_start", tok=tok)
    try:
        await asyncio.sleep(dur)
    finally:
        log("task_end", tok=tok)
    return tok


@broker.task(task_name="t_sync")
def t_sync(tok: str, dur: float) -> str:
    log("task_start", tok=tok)
    try:
        time.sleep(dur)
    finally:
        log("task_end", tok=tok)
    return tok
