"""Sharded runner, verdict logic and evidence writer shared by all checks."""
from __future__ import annotations

import hashlib
import json
import os
import random
import subprocess
import sys
import time
import traceback
from collections import Counter
from typing import Any, Dict, Iterator, List, Optional

VERIF = os.path.dirname(os.path.dirname(os.path.abspath(__file__)))
REPO = os.environ.get("VERIF_REPO", "/repo")
NCPU = min(16, os.cpu_count() or 4)


def jhash(obj: Any) -> str:
    return hashlib.sha1(
        json.dumps(obj, sort_keys=True, default=repr).encode(),
    ).hexdigest()[:16]


class Violation:
    def __init__(self, kind: str, msg: str, detail: Any = None) -> None:
        self.kind = kind
        self.msg = msg
        self.detail = detail

    def to_json(self) -> Dict[str, Any]:
        return {"kind": self.kind, "msg": self.msg, "detail": self.detail}


class CaseResult:
    """What one executed case contributed."""

    def __init__(self) -> None:
        self.sig: Optional[str] = None  # signature of the observed behaviour
        self.nontrivial = False
        self.events: Counter = Counter()
        self.counters: Counter = Counter()
        self.violations: List[Violation] = []
        self.trace: Any = None  # compact trace for witnesses / samples
        self.skipped: Optional[str] = None  # reason the case could not be judged


class Check:
    """Base class of a property check."""

    pid = "C00"
    level = "exploration"
    rule = ""
    assumptions: List[str] = []
    # event/counter floors: {"events.ack": 10}; below => INCONCLUSIVE
    floors: Dict[str, int] = {}
    quick_cases = 1000
    thorough_cases = 20000
    quick_time = 20.0  # per-shard wall budget (s): stop generating after this
    thorough_time = 240.0
    shards_quick = NCPU
    shards_thorough = NCPU

    def selftest(self) -> List[str]:
        """Run oracles on hand-written bad traces; return list of failures."""
        return []

    def cases(self, rng: random.Random, tier: str, shard: int, nshards: int) -> Iterator[Any]:
        raise NotImplementedError

    def run_case(self, spec: Any) -> CaseResult:
        raise NotImplementedError

    def extra_evidence(self, merged: Dict[str, Any]) -> Dict[str, Any]:
        return {}

    def shard_epilogue(self, tier: str, shard: int, rng: random.Random) -> Dict[str, int]:
        """Extra work done once per shard after the case loop; returns counters."""
        return {}

    def post_merge(self, merged: Dict[str, Any]) -> None:
        """May derive further counters from the merged shard results (before floors)."""


# ---------------------------------------------------------------------------------
# shard execution (in a subprocess)


def run_shard(check: Check, tier: str, seed: int, shard: int, nshards: int, out: str) -> None:
    rng = random.Random(seed * 1000003 + shard)
    ncases = check.quick_cases if tier == "quick" else check.thorough_cases
    budget = check.quick_time if tier == "quick" else check.thorough_time
    scale = float(os.environ.get("VERIF_SCALE", "1"))
    ncases = max(1, int(ncases * scale))
    budget *= max(scale, 1.0)
    per_shard = (ncases + nshards - 1) // nshards
    t0 = time.monotonic()
    res: Dict[str, Any] = {
        "evals": 0,
        "sigs": set(),
        "events": Counter(),
        "counters": Counter(),
        "violations": {},  # kind -> {count, first}
        "samples": [],
        "skipped": Counter(),
        "errors": [],
        "time_capped": False,
    }
    st_fail = check.selftest() if shard == 0 else []
    res["selftest_failures"] = st_fail
    n = 0
    import signal

    class CaseTimeout(Exception):
        pass

    def _alarm(signum: int, frame: Any) -> None:
        raise CaseTimeout("case exceeded its wall-clock limit")

    case_limit = float(os.environ.get("VERIF_CASE_LIMIT", "0")) or max(60.0, budget)
    try:
        signal.signal(signal.SIGALRM, _alarm)
    except ValueError:
        pass
    try:
        for spec in check.cases(rng, tier, shard, nshards):
            if n >= per_shard:
                break
            if time.monotonic() - t0 > budget:
                res["time_capped"] = True
                break
            n += 1
            try:
                signal.setitimer(signal.ITIMER_REAL, case_limit)
                try:
                    cr = check.run_case(spec)
                finally:
                    signal.setitimer(signal.ITIMER_REAL, 0)
            except BaseException as exc:  # noqa: BLE001  harness failure => inconclusive
                if isinstance(exc, KeyboardInterrupt):
                    raise
                res["errors"].append(
                    {"spec": spec, "error": "".join(traceback.format_exception(exc))[-3000:]},
                )
                if len(res["errors"]) > 20:
                    break
                continue
            res["evals"] += 1
            if cr.skipped:
                res["skipped"][cr.skipped] += 1
                continue
            res["events"].update(cr.events)
            merge_counts(res["counters"], cr.counters)
            if cr.nontrivial and cr.sig is not None:
                res["sigs"].add(cr.sig)
            if len(res["samples"]) < 2 and cr.nontrivial:
                res["samples"].append({"spec": spec, "observed": _clip(cr.trace)})
            for v in cr.violations:
                slot = res["violations"].setdefault(v.kind, {"count": 0, "first": None})
                slot["count"] += 1
                if slot["first"] is None:
                    slot["first"] = {
                        "kind": v.kind,
                        "msg": v.msg,
                        "detail": v.detail,
                        "spec": spec,
                        "trace": _clip(cr.trace, 400),
                    }
    except BaseException as exc:  # noqa: BLE001
        res["errors"].append({"spec": None, "error": "".join(traceback.format_exception(exc))[-3000:]})
    try:
        merge_counts(res["counters"], check.shard_epilogue(tier, shard, rng))
    except BaseException as exc:  # noqa: BLE001
        res["errors"].append({"spec": "epilogue", "error": "".join(traceback.format_exception(exc))[-3000:]})
    res["sigs"] = sorted(res["sigs"])
    res["events"] = dict(res["events"])
    res["counters"] = dict(res["counters"])
    res["skipped"] = dict(res["skipped"])
    res["wall"] = time.monotonic() - t0
    with open(out, "w") as f:
        json.dump(res, f, default=repr)


def merge_counts(dst: Any, src: Any) -> None:
    for k, v in src.items():
        if k.startswith("max_"):
            dst[k] = max(dst.get(k, 0), v)
        else:
            dst[k] = dst.get(k, 0) + v


def _clip(trace: Any, n: int = 60) -> Any:
    if isinstance(trace, list) and len(trace) > n:
        return trace[:n] + [f"... {len(trace) - n} more"]
    return trace


# ---------------------------------------------------------------------------------
# parent: spawn shards, merge, verdict, evidence


def load_known() -> List[Dict[str, Any]]:
    p = os.path.join(VERIF, "known_findings.json")
    if not os.path.exists(p):
        return []
    with open(p) as f:
        return json.load(f)["findings"]


def main_run(check: Check, tier: str, seed: int) -> int:
    t0 = time.monotonic()
    pid = check.pid
    nshards = check.shards_quick if tier == "quick" else check.shards_thorough
    nshards = int(os.environ.get("VERIF_SHARDS", nshards))
    work = os.path.join(VERIF, ".work", f"{pid}_{os.getpid()}")
    os.makedirs(work, exist_ok=True)
    budget = check.quick_time if tier == "quick" else check.thorough_time
    budget *= max(float(os.environ.get("VERIF_SCALE", "1")), 1.0)
    procs = []
    env = dict(os.environ)
    env.setdefault("PYTHONHASHSEED", "0")
    env["PYTHONDONTWRITEBYTECODE"] = "1"
    for i in range(nshards):
        out = os.path.join(work, f"shard{i}.json")
        cmd = [
            sys.executable, os.path.join(VERIF, "check.py"), pid, "--tier", tier,
            "--seed", str(seed), "--shard", f"{i}/{nshards}", "--out", out,
        ]
        log = open(os.path.join(work, f"shard{i}.log"), "w")
        procs.append((i, out, subprocess.Popen(cmd, env=env, stdout=log, stderr=subprocess.STDOUT), log))
    inconclusive: List[str] = []
    shard_results = []
    deadline = time.monotonic() + budget * 2 + 120
    for i, out, p, log in procs:
        try:
            p.wait(timeout=max(1.0, deadline - time.monotonic()))
        except subprocess.TimeoutExpired:
            p.kill()
            p.wait()
            inconclusive.append(f"shard {i} hit the wall-clock watchdog")
            log.close()
            continue
        log.close()
        if p.returncode != 0 or not os.path.exists(out):
            tail = ""
            try:
                with open(os.path.join(work, f"shard{i}.log")) as f:
                    tail = f.read()[-1500:]
            except OSError:
                pass
            inconclusive.append(f"shard {i} exited {p.returncode}: {tail}")
            continue
        with open(out) as f:
            shard_results.append(json.load(f))
    merged: Dict[str, Any] = {
        "evals": 0, "sigs": set(), "events": Counter(), "counters": Counter(),
        "violations": {}, "samples": [], "skipped": Counter(), "errors": [],
        "selftest_failures": [], "time_capped": 0,
    }
    for r in shard_results:
        merged["evals"] += r["evals"]
        merged["sigs"].update(r["sigs"])
        merged["events"].update(r["events"])
        merge_counts(merged["counters"], r["counters"])
        merged["skipped"].update(r["skipped"])
        merged["errors"].extend(r["errors"])
        merged["selftest_failures"].extend(r.get("selftest_failures", []))
        merged["time_capped"] += 1 if r.get("time_capped") else 0
        if len(merged["samples"]) < 4:
            merged["samples"].extend(r["samples"][: 4 - len(merged["samples"])])
        for k, v in r["violations"].items():
            slot = merged["violations"].setdefault(k, {"count": 0, "first": None})
            slot["count"] += v["count"]
            if slot["first"] is None:
                slot["first"] = v["first"]
    check.post_merge(merged)
    # ------------------------------------------------------------------ verdict
    known = [k for k in load_known() if k["property"] == pid]
    open_kinds = {k["kind"]: k for k in known if k["status"] == "open"}
    lines: List[str] = []
    n_viol = 0
    known_hits: Dict[str, int] = {}
    scratch = bool(os.environ.get("VERIF_NO_EVIDENCE"))
    replay_dir = os.path.join(VERIF, ".work", "replays") if scratch else os.path.join(VERIF, "replays")
    os.makedirs(replay_dir, exist_ok=True)
    for kind, v in sorted(merged["violations"].items()):
        if kind in open_kinds:
            known_hits[kind] = v["count"]
            lines.append(
                f"KNOWN-FINDING: property={pid} {open_kinds[kind]['id']} {open_kinds[kind]['what']}"
                f" (kind={kind}, seen {v['count']}x this run)",
            )
            continue
        n_viol += 1
        rp = os.path.join(replay_dir, f"{pid}_{kind}_{jhash(v['first']['spec'])}.json")
        with open(rp, "w") as f:
            json.dump({"property": pid, **v["first"]}, f, indent=1, default=repr)
        lines.append(f"VIOLATION property={pid} replay={rp}")
        lines.append(f"  kind={kind} count={v['count']} msg={v['first']['msg']}")
    if merged["errors"]:
        inconclusive.append(
            f"{len(merged['errors'])} harness errors, first: {merged['errors'][0]['error'][-800:]}",
        )
    if merged["selftest_failures"]:
        inconclusive.append(f"oracle self-test failed: {merged['selftest_failures']}")
    for key, floor in check.floors.items():
        grp, name = key.split(".", 1)
        have = merged[grp].get(name, 0)
        if have < floor:
            inconclusive.append(f"monitor floor not reached: {key}={have} < {floor}")
    nontriv = len(merged["sigs"])
    if nontriv < 2:
        inconclusive.append(f"distinct_nontrivial={nontriv} < 2")
    wall = time.monotonic() - t0
    cov: Dict[str, Any] = {
        "evaluations": merged["evals"],
        "distinct_nontrivial": nontriv,
        "rule": check.rule,
        "samples": merged["samples"] or [{"note": "no non-trivial sample recorded"}],
        "events_observed": dict(merged["events"]),
        "counters": dict(merged["counters"]),
        "skipped_cases": dict(merged["skipped"]),
        "known_finding_hits": known_hits,
        "violation_kinds": {k: v["count"] for k, v in merged["violations"].items()},
        "shards": nshards,
        "shards_time_capped": merged["time_capped"],
        "inconclusive_reasons": inconclusive,
        "repo": REPO,
    }
    cov.update(check.extra_evidence(merged))
    ev = {
        "property_id": pid, "tier": tier, "seed": seed, "level": check.level,
        "coverage": cov, "assumptions": check.assumptions, "wall_s": round(wall, 2),
        "violations": n_viol,
    }
    ev_dir = os.path.join(VERIF, ".work", "evidence") if scratch else os.path.join(VERIF, "evidence")
    os.makedirs(ev_dir, exist_ok=True)
    with open(os.path.join(ev_dir, f"{pid}.json"), "w") as f:
        json.dump(ev, f, indent=1, default=repr)
    for ln in lines:
        print(ln)
    summary = (
        f"{pid} tier={tier} seed={seed} evals={merged['evals']} distinct_nontrivial={nontriv} "
        f"events={sum(merged['events'].values())} wall={wall:.1f}s"
    )
    # clean the work dir
    try:
        for fn in os.listdir(work):
            os.unlink(os.path.join(work, fn))
        os.rmdir(work)
    except OSError:
        pass
    if n_viol:
        print("RESULT violated:", summary)
        return 1
    if inconclusive:
        for r in inconclusive:
            print(f"INCONCLUSIVE property={pid} reason={r}")
        print("RESULT inconclusive:", summary)
        return 2
    print("RESULT held:", summary)
    return 0
