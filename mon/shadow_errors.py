"""Importable exception classes whose *names* are those of builtin exceptions (requests.ConnectionError,
concurrent.futures.TimeoutError style): different classes, found by module + name like any other."""


class ConnectionError(Exception):  # noqa: A001
    pass


class TimeoutError(ValueError):  # noqa: A001
    pass


class KeyError(Exception):  # noqa: A001
    """Unlike the builtin, str() of it does not quote the key."""
