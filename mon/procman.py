"""C17 / C18: the real ProcessManager in a fake process world (exhaustive + random histories)."""
from __future__ import annotations

import itertools
import random
import signal as real_signal
from typing import Any, Dict, Iterator, List, Optional, Tuple

import taskiq.cli.worker.process_manager as pm
from taskiq.cli.worker.args import WorkerArgs

from mon.runner import CaseResult, Check, Violation, jhash


class EndOfHistory(BaseException):
    pass


class WouldBlockForever(BaseException):
    pass


class Livelock(BaseException):
    pass


class World:
    def __init__(self, history: List[Tuple[Tuple[int, ...], Optional[str], bool]], lag: bool = False, boot: Any = None) -> None:
        self.history = history
        self.boot = boot
        # lag=True models multiprocessing.Queue's feeder thread: what the manager itself puts while it is
        # processing (the ReloadOne expansion of a reload-all) becomes visible only at the next tick; what
        # signal handlers put during the sleep is visible when processing starts (observed with strace on
        # the real manager: both behaviours occur)
        self.lag = lag
        self.in_sleep = False
        # slow_exit: a terminated worker needs this many seconds before it is gone (a worker finishing its
        # tasks); join() without timeout waits for it, join(timeout=t) returns early while it is still alive
        self.slow_exit: float = 0.0
        self.clock: float = 1000.0
        self.tick = 0  # number of sleep() calls so far
        self.trace: List[Tuple[Any, ...]] = []
        self.procs: List["FakeProcess"] = []
        self.next_pid = 1000
        self.handlers: Dict[int, Any] = {}
        self.queue: Any = None
        self.deaths: List[Tuple[int, "FakeProcess", bool]] = []  # (tick, process, died mid-tick)
        # mid-tick events: a 4th element of a history entry lists [k, kind, arg]; the event happens just before
        # the k-th call the manager makes into the process world while it handles that tick (a signal handler
        # runs between two bytecodes of the main thread, a worker may die at any moment)
        self.calls = 0
        self.mid_now: Dict[int, List[Tuple[str, Any]]] = {}
        # boot: [k, "die", slot] events before the first sleep - a worker that crashes while the manager is still
        # starting the workers (import error in the worker, port in use)
        for k, kind, arg in (boot or ()):
            self.mid_now.setdefault(int(k), []).append((kind, arg))
        self.in_inject = False
        self.mid_sites: List[Tuple[str, str]] = []

    def point(self, site: str) -> None:
        self.calls_in_tick = getattr(self, "calls_in_tick", 0) + 1
        if self.calls_in_tick > 20000:
            # the manager keeps calling into the process world without ever going back to sleep: it is stuck
            raise Livelock(f"{self.calls_in_tick} calls into the process world within one supervision tick (last: {site})")
        if self.in_sleep or self.in_inject or not self.mid_now:
            return
        self.calls += 1
        evs = self.mid_now.pop(self.calls, None)
        if not evs:
            return
        self.in_inject = True
        try:
            for kind, arg in evs:
                self.mid_sites.append((site, kind if kind != "sig" else str(arg)))
                if kind == "die":
                    self._inject((arg,), None, False, mid=True)
                elif kind == "sig":
                    self._inject((), arg, False, mid=True)
                else:
                    self._inject((), None, True, mid=True)
        finally:
            self.in_inject = False

    def rec(self, *e: Any) -> None:
        self.trace.append((self.tick,) + e)

    def current(self, slot: str) -> Optional["FakeProcess"]:
        for p in reversed(self.procs):
            if p.name == slot and p.state != "new":
                return p
        return None

    # the tick -------------------------------------------------------------------
    def now(self) -> float:
        """The world's clock (what time.monotonic / time.time / perf_counter read in the manager's module)."""
        return self.clock

    def sleep(self, secs: float) -> None:
        if not isinstance(secs, (int, float)):
            raise TypeError("'%s' object cannot be interpreted as an integer or float" % type(secs).__name__)
        if secs < 0:
            raise ValueError("sleep length must be non-negative")  # what time.sleep does
        self.clock += float(secs)
        if self.tick >= len(self.history):
            raise EndOfHistory
        entry = self.history[self.tick]
        die, sig, fchange = entry[0], entry[1], entry[2]
        self.tick += 1
        self.calls_in_tick = 0
        self.rec("tick")
        if self.queue is not None:
            self.queue.flush()
        self.calls = 0
        self.mid_now = {}
        for k, kind, arg in (entry[3] if len(entry) > 3 else ()):
            self.mid_now.setdefault(int(k), []).append((kind, arg))
        # a process the manager terminated exits on its own (after its drain time), whether or not anybody waits
        # for it; nobody ordered that exit from outside, so it is no "unexpected" death of the history
        for p in self.procs:
            if p.state == "terminating" and self.tick - getattr(p, "term_tick", self.tick) >= max(1, int(self.slow_exit)):
                p.state = "dead"
                self.rec("exited_after_terminate", p.name, p.pid)
        self.in_sleep = True
        try:
            self._inject(die, sig, fchange)
        finally:
            self.in_sleep = False

    def _inject(self, die: Any, sig: Any, fchange: Any, mid: bool = False) -> None:
        for slot in die:
            p = self.current(f"worker-{slot}")
            if p is not None and p.state == "alive":
                p.state = "dead"
                self.deaths.append((self.tick, p, mid))
                self.rec("died", p.name, p.pid, mid)
        for one in (sig.split(",") if sig else []):
            signum = {"HUP": real_signal.SIGHUP, "INT": real_signal.SIGINT, "TERM": real_signal.SIGTERM}[one]
            self.rec("signal", one, mid)
            h = self.handlers.get(signum)
            if h is not None:
                h(signum, None)
        if fchange:
            self.rec("file_change", mid)
            pm.schedule_workers_reload(self.queue)


class FakeProcess:
    world: World

    def __init__(self, target: Any = None, kwargs: Any = None, name: str = "", daemon: bool = False) -> None:
        self.name = name
        self.daemon = daemon
        self.state = "new"
        self.pid: Optional[int] = None
        self.reaped = False
        self.world.procs.append(self)

    def start(self) -> None:
        w = self.world
        w.point("start")
        self.pid = w.next_pid
        w.next_pid += 1
        live = [p.pid for p in w.procs if p is not self and p.name == self.name and p.state in ("alive", "terminating")]
        self.state = "alive"
        w.rec("start", self.name, self.pid, tuple(live))

    def terminate(self) -> None:
        self.world.point("terminate")
        self.world.rec("terminate", self.name, self.pid)
        if self.state == "alive":
            self.state = "terminating"
            self.term_tick = self.world.tick

    def join(self, timeout: Any = None) -> None:
        w = self.world
        w.point("join")
        if self.state == "alive":
            if timeout is not None:
                w.rec("join_timeout", self.name, self.pid)
                return
            w.rec("join_blocks", self.name, self.pid)
            raise WouldBlockForever(self.name)
        if self.state == "terminating" and timeout is not None and w.slow_exit > timeout:
            w.rec("join_timeout", self.name, self.pid)  # still alive when join() gives up
            return
        w.rec("join", self.name, self.pid)
        if self.state == "terminating":
            w.clock += float(w.slow_exit)  # the caller waits for as long as the process needs to be gone
        if self.state in ("terminating", "dead"):
            self.state = "dead"
            self.reaped = True

    def is_alive(self) -> bool:
        self.world.point("is_alive")
        alive = self.state in ("alive", "terminating")
        if self.state == "dead":
            self.reaped = True
        self.world.rec("is_alive", self.name, self.pid, alive)
        return alive


class FakeQueue:
    world: World

    def __init__(self, maxsize: int = 0) -> None:
        self.items: List[Any] = []
        self.pending: List[Any] = []
        self.maxsize = maxsize
        if self.world.queue is None:
            self.world.queue = self

    def put(self, x: Any) -> None:
        self.world.point("put")
        self.world.rec("put", type(x).__name__, getattr(x, "is_reload_all", None))
        if self.maxsize and self.maxsize > 0 and len(self.items) + len(self.pending) >= self.maxsize:
            # a bounded queue that is full: put() blocks - and the manager is the only consumer
            raise WouldBlockForever(f"put() on a full action queue (maxsize={self.maxsize})")
        if self.world.lag and not self.world.in_sleep:
            self.pending.append(x)
        else:
            self.items.append(x)

    def flush(self) -> None:
        self.items.extend(self.pending)
        self.pending = []

    def get(self) -> Any:
        self.world.point("get")
        return self.items.pop(0)

    def empty(self) -> bool:
        self.world.point("empty")
        return not self.items


class FakeEvent:
    world: World

    def wait(self, timeout: Any = None) -> bool:
        self.world.point("event_wait")
        return True

    def set(self) -> None:
        pass


class FakeOS:
    def __init__(self, world: World) -> None:
        self.world = world

    def kill(self, pid: int, sig: int) -> None:
        w = self.world
        w.point("kill")
        owner = [p for p in w.procs if p.pid == pid]
        reaped = bool(owner and owner[0].reaped)
        w.rec("kill", pid, int(sig), reaped)
        if not owner or reaped:
            raise ProcessLookupError(pid)

    def __getattr__(self, name: str) -> Any:
        import os as real_os

        return getattr(real_os, name)


class FakeSignal:
    SIGINT = real_signal.SIGINT
    SIGTERM = real_signal.SIGTERM
    SIGHUP = real_signal.SIGHUP

    def __init__(self, world: World) -> None:
        self.world = world

    def signal(self, signum: int, handler: Any) -> None:
        self.world.handlers[int(signum)] = handler

    def __getattr__(self, name: str) -> Any:
        return getattr(real_signal, name)


class _CurProc:
    name = "MainProcess"


_ABSENT = object()


def run_history(workers: int, max_fails: int, history: List[Any], lag: bool = False, slow_exit: float = 0.0,
                reload: bool = False, boot: Any = None, mtpc: Any = None) -> Dict[str, Any]:
    """Run the real ProcessManager.__init__/start() against one history in the fake world."""
    world = World(history, lag, boot)
    world.slow_exit = slow_exit
    FakeProcess.world = world
    FakeQueue.world = world
    FakeEvent.world = world
    saved = {k: getattr(pm, k) for k in ("Process", "Queue", "Event", "sleep", "os", "signal", "current_process")}
    # clock readers the module may have imported by name (none in the unchanged tree)
    clocks = {k: getattr(pm, k, _ABSENT) for k in ("monotonic", "perf_counter", "time")}
    for k in clocks:
        if clocks[k] is _ABSENT or callable(clocks[k]):
            setattr(pm, k, world.now)
    pm.Process = FakeProcess  # type: ignore
    pm.Queue = FakeQueue  # type: ignore
    pm.Event = FakeEvent  # type: ignore
    pm.sleep = world.sleep  # type: ignore
    pm.os = FakeOS(world)  # type: ignore
    pm.signal = FakeSignal(world)  # type: ignore
    pm.current_process = lambda: _CurProc()  # type: ignore
    out: Dict[str, Any] = {"returned": False, "ret": None, "crash": None, "blocked": False}
    try:
        # reload=True is what `taskiq worker --reload` sets (development mode): supervision itself must not differ
        # (max_tasks_per_child makes workers recycle themselves; it does not change what counts as an unexpected exit)
        args = WorkerArgs(broker="b:b", modules=[], workers=workers, max_fails=max_fails, reload=reload, max_tasks_per_child=mtpc)
        mgr = pm.ProcessManager(args, worker_function=lambda args: None)
        try:
            out["ret"] = mgr.start()
            out["returned"] = True
            world.rec("return", out["ret"])
        except EndOfHistory:
            pass
        except WouldBlockForever as exc:
            out["blocked"] = True
            out["crash"] = (f"manager blocked forever: {exc}" if "action queue" in str(exc)
                            else f"join() on a live process nobody terminated: {exc}")
        except Livelock as exc:
            out["blocked"] = True
            out["crash"] = f"manager stuck: {exc}"
        except Exception as exc:  # noqa: BLE001
            out["crash"] = repr(exc)
            world.rec("crash", repr(exc))
    finally:
        for k, v in saved.items():
            setattr(pm, k, v)
        for k, v in clocks.items():
            if v is _ABSENT:
                if hasattr(pm, k):
                    delattr(pm, k)
            else:
                setattr(pm, k, v)
    out["trace"] = world.trace
    out["reload"] = reload
    out["boot"] = boot
    out["mtpc"] = mtpc
    out["ticks"] = world.tick
    out["deaths"] = [(t, p.name, p.pid, mid) for t, p, mid in world.deaths]
    out["world"] = world
    return out


# ------------------------------------------------------------------------------------
# oracles


def oracle_c17(out: Dict[str, Any], workers: int, max_fails: Optional[int] = None) -> List[Violation]:
    v: List[Violation] = []
    tr = out["trace"]
    if out["crash"]:
        v.append(Violation("manager-crashed", out["crash"]))
    if out.get("returned") and out.get("ret") is None and not any(e[1] == "signal" and e[2] in ("INT", "TERM") for e in tr):
        v.append(Violation("stopped-supervising", "start() returned although nobody asked the manager to shut down: dead workers are no longer replaced"))
    if max_fails is not None and max_fails < 1 and out.get("returned") and out.get("ret") == -1:
        # "unless it has exhausted its failure budget": there is no budget to exhaust when max_fails < 1
        v.append(Violation("gave-up-without-budget", f"start() returned -1 (stopped supervising) although max_fails={max_fails} means no failure budget"))
    if max_fails is not None and max_fails >= 1 and out.get("returned") and out.get("ret") == -1:
        died_pids = {e[3] for e in tr if e[1] == "died"}
        told = {e[3] for e in tr if e[1] == "is_alive" and e[4] is False and e[3] in died_pids}
        if len(told) < max_fails:
            v.append(Violation("gave-up-before-budget-exhausted", f"start() returned -1 after only {len(told)} worker deaths were seen, max_fails={max_fails}: the dead worker is not replaced although the budget is not exhausted"))
    slots = {f"worker-{i}" for i in range(workers)}
    started_slots = set()
    for e in tr:
        if e[1] == "start":
            _, _, name, pid, live = e
            started_slots.add(name)
            if name not in slots:
                v.append(Violation("slot-count-changed", f"process started for unknown slot {name}"))
            if live:
                v.append(Violation("two-live-processes", f"tick {e[0]}: {name} started (pid {pid}) while pid(s) {list(live)} of the same slot were still live"))
    if started_slots != slots:
        v.append(Violation("slot-count-changed", f"slots started {sorted(started_slots)} != {sorted(slots)}"))
    # replacement within two supervision ticks: a worker found dead by the scan of tick t (it died during
    # that tick's sleep, or later in the tick but before the scan looked at it) is replaced while tick t+1
    # is handled; one that died after the scan of tick t had passed it is found by the scan of t+1 and
    # replaced in t+2
    ret_tick = None
    for e in tr:
        if e[1] in ("return", "crash"):
            ret_tick = e[0]
    last_tick = out["ticks"]
    for t, name, pid, mid in out["deaths"]:
        deadline = t + 1
        i_death = next(i for i, e in enumerate(tr) if e[1] == "died" and e[3] == pid)
        if mid:
            seen_same_tick = any(e[1] == "is_alive" and e[3] == pid and e[4] is False and e[0] == t for e in tr[i_death:])
            if not seen_same_tick or t == 0:
                # (before the first tick there is no health check: a worker that crashes while the workers are being
                # started is found by the check at the end of tick 1 and replaced in tick 2)
                deadline = t + 2
        if ret_tick is not None and ret_tick <= deadline:
            continue
        if last_tick < deadline:
            continue  # history too short to judge
        ok = any(e[1] == "start" and e[2] == name and e[3] != pid and t <= e[0] <= deadline for e in tr[i_death:])
        if not ok:
            v.append(Violation("dead-worker-not-replaced", f"{name} (pid {pid}) died {'while tick ' + str(t) + ' was handled' if mid else 'in the sleep of tick ' + str(t)}; no replacement started by the end of tick {deadline}"))
    return v


def _after_death(tr: List[Any], start_ev: Any, pid: int) -> bool:
    i_start = tr.index(start_ev)
    for i, e in enumerate(tr):
        if e[1] == "died" and e[3] == pid:
            return i < i_start
    return False


def _tick_completed(tr: List[Any], t: int, out: Dict[str, Any]) -> bool:
    # tick t is complete if a later tick began or the run ended by EndOfHistory after processing it
    return True


def oracle_c18(out: Dict[str, Any], workers: int, max_fails: int, history: List[Any]) -> List[Violation]:
    v: List[Violation] = []
    tr = out["trace"]
    # K per tick: distinct processes reported dead to the manager (is_alive() -> False)
    told: set = set()
    died_pids = {e[3] for e in tr if e[1] == "died"}
    K_at_end_of_tick: Dict[int, int] = {}
    ret = None
    ret_tick = None
    cur_tick = 0
    for e in tr:
        if e[1] == "tick":
            K_at_end_of_tick[e[0] - 1] = len(told)
            cur_tick = e[0]
        elif e[1] == "is_alive" and e[4] is False and e[3] in died_pids and e[0] >= 1:
            told.add(e[3])  # (a process the manager itself stopped is not an unexpected exit; the start-up wait is no health check)
        elif e[1] == "return":
            ret = e[2]
            ret_tick = e[0]
    K_at_end_of_tick[cur_tick] = len(told)
    K = len(told)
    if out["returned"]:
        if ret not in (-1, None):
            v.append(Violation("bad-return-value", f"start() returned {ret!r}"))
        if ret is None and not any(e[1] == "signal" and e[2] in ("INT", "TERM") for e in tr):
            v.append(Violation("returned-without-shutdown-request", "start() returned the success status although no SIGINT/SIGTERM was ever delivered"))
        if ret == -1:
            if max_fails < 1:
                v.append(Violation("failure-exit-with-budget-disabled", f"returned -1 with max_fails={max_fails}"))
            elif K < max_fails:
                v.append(Violation("failure-exit-too-early", f"returned -1 after the manager was told of {K} unexpected exits, max_fails={max_fails}"))
    sd_events0 = [e for e in tr if e[1] == "signal" and e[2] in ("INT", "TERM")]
    # converse: K(t-1) >= max_fails >= 1 => returned (-1, or None if a shutdown signal raced) by tick t
    if max_fails >= 1:
        for t in sorted(K_at_end_of_tick):
            if K_at_end_of_tick[t] >= max_fails:
                # must have returned during tick t+1 (if that tick was played)
                if out["ticks"] >= t + 1 and _tick_played_fully(out, t + 1):
                    if ret_tick is None or ret_tick > t + 1:
                        v.append(Violation("failure-budget-ignored", f"manager was told of {K_at_end_of_tick[t]} unexpected exits by the end of tick {t} (max_fails={max_fails}) but did not exit during tick {t + 1}"))
                    elif ret == None and not any(e[0] <= t + 1 for e in sd_events0):  # noqa: E711
                        v.append(Violation("failure-budget-ignored", f"budget exhausted at tick {t} but start() returned success"))
                break
    # the same rule, exact, from the order of the action queue (first in, first out): once the max_fails-th restart
    # request for an unexpectedly dead worker is queued with no shutdown request ahead of it, handling it ends
    # start() with the failure status - a shutdown request queued *behind* it cannot turn that into success
    if max_fails >= 1 and out["returned"] and ret is None:
        n = 0
        for e in tr:
            if e[1] != "put":
                continue
            if e[2] == "ShutdownAction":
                break
            if e[2] == "ReloadOneAction" and not e[3]:
                n += 1
                if n >= max_fails:
                    v.append(Violation("failure-exit-preempted-by-later-shutdown", f"the restart request that exhausts max_fails={max_fails} was queued at tick {e[0]} ahead of any "
                                       f"shutdown request, but start() returned the success status at tick {ret_tick}"))
                    break
    # reload-all: (i) never more than one restart of a slot within one tick; (ii) every reload-all request
    # (SIGHUP / file change at tick t) restarts every slot at least once within ticks t..t+1 (the
    # ReloadOne expansion may become visible one tick later, see World.lag) unless start() returned
    per_tick: Dict[Tuple[int, str], int] = {}
    for e in tr:
        if e[1] == "start" and e[0] >= 1:
            per_tick[(e[0], e[2])] = per_tick.get((e[0], e[2]), 0) + 1
    for (t, name), n in per_tick.items():
        if n > 1:
            v.append(Violation("reload-all-restart-count", f"tick {t}: {name} was restarted {n} times within one tick"))
            break
    lagged = bool(out["world"].lag) if "world" in out else False
    sd_events = [e for e in tr if e[1] == "signal" and e[2] in ("INT", "TERM")]
    first_sd = sd_events[0] if sd_events else None
    for e in tr:
        is_req = (e[1] == "signal" and e[2] == "HUP") or e[1] == "file_change"
        if not is_req:
            continue
        t = e[0]
        mid = bool(e[-1])
        # a request made while the manager handles tick t is picked up in that tick or the next; the ReloadOne
        # expansion may take one more tick to become visible on a lagged queue
        deadline = t + 1 + (1 if (mid and lagged) else 0)
        if first_sd is not None and first_sd[0] <= deadline:
            continue
        if ret_tick is not None and ret_tick <= deadline:
            continue
        if out["ticks"] < deadline or not _tick_played_fully(out, deadline):
            continue
        for i in range(workers):
            n = sum(per_tick.get((tt, f"worker-{i}"), 0) for tt in range(t, deadline + 1))
            if n < 1:
                v.append(Violation("reload-all-restart-count", f"reload-all requested {'while handling' if mid else 'in the sleep of'} tick {t} but worker-{i} was not restarted in ticks {t}..{deadline}"))
                break
    # shutdown
    sd_tick = first_sd[0] if first_sd is not None else None
    sd_deadline = None if first_sd is None else (sd_tick + (1 if first_sd[-1] else 0))
    if sd_tick is not None and out["ticks"] < sd_deadline:
        sd_tick = None  # history ended before the request had to be handled
    if sd_tick is not None and (ret_tick is None or ret_tick >= sd_tick) and not out["crash"]:
        if not out["returned"] or ret_tick > sd_deadline:
            v.append(Violation("shutdown-ignored", f"shutdown signal at tick {sd_tick} but start() did not return by the end of tick {sd_deadline} (returned={out['returned']}, tick={ret_tick})"))
        elif ret is None:
            kills = [e for e in tr if e[1] == "kill" and e[0] == ret_tick]
            w: World = out["world"]
            # current workers at the moment of the first kill / return
            idx = tr.index(kills[0]) if kills else len(tr)
            current: Dict[str, int] = {}
            state_dead: set = set()
            for e in tr[:idx]:
                if e[1] == "start":
                    current[e[2]] = e[3]
            for e in tr:
                if e[1] == "died":  # dead before the manager got to signal it (also while the loop was running)
                    state_dead.add(e[3])
            cur_pids = set(current.values())
            for e in kills:
                if e[4]:
                    v.append(Violation("signalled-reaped-pid", f"shutdown signalled pid {e[2]} which the manager had already reaped (the number may belong to a foreign process)"))
                if e[2] not in cur_pids:
                    v.append(Violation("signalled-foreign-process", f"shutdown signalled pid {e[2]}, not a current worker ({sorted(cur_pids)})"))
                if e[3] != int(real_signal.SIGINT):
                    v.append(Violation("wrong-shutdown-signal", f"sent signal {e[3]} to {e[2]}"))
            for pid in cur_pids:
                n = sum(1 for e in kills if e[2] == pid)
                if pid in state_dead:
                    if n > 1:
                        v.append(Violation("signalled-twice", f"pid {pid} signalled {n} times"))
                elif n != 1:
                    v.append(Violation("live-worker-not-signalled-once", f"live worker pid {pid} signalled {n} times on shutdown"))
            # terminate() is a signal too (SIGTERM): once shutdown handling began a worker gets its SIGINT and nothing else
            extra = [e for e in tr[idx:] if e[1] == "terminate" and e[3] in cur_pids]
            if kills and extra:
                v.append(Violation("signalled-twice", f"shutdown: worker {extra[0][2]} (pid {extra[0][3]}) was sent SIGINT and then terminated (a second signal)"))
            after = [e for e in tr[idx:] if e[1] == "start"]
            if after:
                v.append(Violation("start-after-shutdown", f"{len(after)} processes started after shutdown handling began"))
        # ret == -1 in the shutdown tick is acceptable when the budget was exhausted (race within the tick)
    if out["crash"]:
        v.append(Violation("manager-crashed", out["crash"]))
    return v


def _tick_played_fully(out: Dict[str, Any], t: int) -> bool:
    """Tick t was fully processed: a later tick started, or the run returned, or history ended after it."""
    return out["ticks"] > t or out["returned"] or out["ticks"] == t


def _is_shutdown(sig: Any) -> bool:
    return bool(sig) and ("INT" in sig or "TERM" in sig)


def _shutdown_in_tick(history: List[Any], t: int) -> bool:
    return 1 <= t <= len(history) and _is_shutdown(history[t - 1][1])


# ------------------------------------------------------------------------------------
# enumeration


def alphabet(workers: int) -> List[Any]:
    subs = []
    for r in range(workers + 1):
        subs += list(itertools.combinations(range(workers), r))
    # several signals within one tick (delivered in that order during the same sleep)
    opts = [(None, False), ("HUP", False), ("INT", False), ("TERM", False), (None, True), ("HUP", True),
            ("INT,INT", False), ("TERM,HUP", False), ("HUP,INT", False)]
    return [(d, s, f) for d in subs for s, f in opts]


def enumerate_histories(workers: int, depth: int, first: Any) -> Iterator[List[Any]]:
    """All histories of length `depth` starting with `first`; the consumer may call .send(k) with the
    tick at which start() returned to prune all extensions of that prefix."""
    alpha = alphabet(workers)
    n = len(alpha)
    idx = [0] * (depth - 1)
    while True:
        hist = [first] + [alpha[i] for i in idx]
        cut = yield hist
        # advance odometer; if cut is given (returned at tick `cut`), skip all with same prefix[:cut]
        pos = len(idx) - 1
        if cut is not None and cut - 1 < depth:
            pos = max(cut - 2, -1)  # position (in idx) of the last symbol of the shared prefix
            for j in range(pos + 1, len(idx)):
                idx[j] = n - 1
            if pos < 0:
                return
            pos = len(idx) - 1
        while pos >= 0:
            idx[pos] += 1
            if idx[pos] < n:
                break
            idx[pos] = 0
            pos -= 1
        if pos < 0:
            return


MAX_FAILS = [-1, 0, 1, 2, 3]


class ProcCheck(Check):
    level = "fault_enumeration"
    quick_cfg = [(1, 5), (2, 4)]
    thorough_cfg = [(1, 7), (2, 5), (3, 4)]
    quick_random = 2000
    thorough_random = 60000
    quick_mid = 40000
    thorough_mid = 1500000
    quick_cases = 10 ** 9
    thorough_cases = 10 ** 9
    quick_time = 90.0
    thorough_time = 900.0
    which = "C17"

    def cases(self, rng: random.Random, tier: str, shard: int, nshards: int) -> Iterator[Any]:
        cfgs = self.quick_cfg if tier == "quick" else self.thorough_cfg
        batches = []
        for w, depth in cfgs:
            for fi, first in enumerate(alphabet(w)):
                for mf in MAX_FAILS:
                    for lag in (False, True):
                        batches.append({"mode": "enum", "workers": w, "depth": depth, "first": fi, "max_fails": mf, "lag": lag})
        nrand = self.quick_random if tier == "quick" else self.thorough_random
        salt = rng.randint(0, 10 ** 6)
        rnd = [{"mode": "random", "seed": salt * 100003 + i, "n": 50} for i in range(nrand // 50)]
        nmid = self.quick_mid if tier == "quick" else self.thorough_mid
        mid = [{"mode": "mid", "seed": salt * 100019 + i, "n": 500} for i in range(nmid // 500)]
        rnd = [b for pair in itertools.zip_longest(rnd, mid) for b in pair if b is not None]
        batches = rnd + batches  # cheap random histories first: a time-capped shard still covers them
        # deterministic partition of the batches over shards
        for i, b in enumerate(batches):
            if i % nshards == shard:
                yield b

    def judge(self, out: Dict[str, Any], w: int, mf: int, hist: List[Any]) -> List[Violation]:
        raise NotImplementedError

    def run_case(self, spec: Dict[str, Any]) -> CaseResult:
        cr = CaseResult()
        sigs = 0
        if spec["mode"] == "enum":
            w, depth, mf = spec["workers"], spec["depth"], spec["max_fails"]
            first = alphabet(w)[spec["first"]]
            gen = enumerate_histories(w, depth, first)
            try:
                hist = next(gen)
                while True:
                    out = run_history(w, mf, hist, spec.get("lag", False), 8.0 if spec.get("lag") else 0.0)
                    self._account(cr, out, w, mf, hist)
                    cut = None
                    if out["returned"] or out["crash"]:
                        cut = max(out["ticks"], 1)
                    hist = gen.send(cut)
            except StopIteration:
                pass
            cr.counters[f"enum_w{w}_d{depth}_{'lag' if spec.get('lag') else 'sync'}_batches"] += 1
        elif spec["mode"] == "mid":
            # short histories with events *inside* ticks: before the k-th call the manager makes into the
            # process world while it handles the tick (see World.point)
            rng = random.Random(spec["seed"])
            for _ in range(spec["n"]):
                w = rng.randint(1, 3)
                mf = rng.choice(MAX_FAILS)
                L = rng.randint(2, 7)
                alpha = alphabet(w)
                quiet = [a for a in alpha if not _is_shutdown(a[1])]
                hist = []
                for _t in range(L):
                    r = rng.random()
                    base = ((), None, False) if r < 0.4 else (rng.choice(quiet) if r < 0.95 else rng.choice(alpha))
                    mids = []
                    for _m in range(rng.choice([0, 1, 1, 1, 2])):
                        kind = rng.choice(["die", "die", "sig", "sig", "file"])
                        arg: Any = None
                        if kind == "die":
                            arg = rng.randrange(w)
                        elif kind == "sig":
                            arg = rng.choice(["HUP", "HUP", "INT", "TERM"])
                        mids.append([rng.randint(1, 6 + 8 * w), kind, arg])
                    hist.append(base + (mids,))
                lag = rng.random() < 0.5
                boot = [[rng.randint(1, 5 * w), "die", rng.randrange(w)] for _ in range(rng.choice([1, 1, 2]))] if rng.random() < 0.15 else None
                if boot is None and rng.random() < 0.08:
                    # a signal that arrives while the manager is still starting its workers (its handlers are installed)
                    boot = [[rng.randint(1, 5 * w), "sig", rng.choice(["INT", "TERM", "HUP"])]]
                out = run_history(w, mf, hist, lag, rng.choice([0.0, 0.0, 8.0]), reload=rng.random() < 0.25, boot=boot,
                                  mtpc=rng.choice([None, None, 1, 10]))
                self._account(cr, out, w, mf, hist)
                cr.counters["midtick_histories"] += 1
                for site, kind in out["world"].mid_sites:
                    cr.counters[f"mid_{kind}_at_{site}"] += 1
        else:
            rng = random.Random(spec["seed"])
            for _ in range(spec["n"]):
                w = rng.randint(1, 3)
                mf = rng.choice(MAX_FAILS)
                L = rng.randint(50, 300)
                alpha = alphabet(w)
                quiet = [a for a in alpha if not _is_shutdown(a[1])]
                hist = []
                for _t in range(L):
                    r = rng.random()
                    if r < 0.5:
                        hist.append(((), None, False))
                    elif r < 0.985:
                        hist.append(rng.choice(quiet))
                    else:
                        hist.append(rng.choice(alpha))
                lag = rng.random() < 0.5
                out = run_history(w, mf, hist, lag, rng.choice([0.0, 0.0, 3.0, 8.0, 30.0]), reload=rng.random() < 0.25,
                                  mtpc=rng.choice([None, None, 1, 10]))
                self._account(cr, out, w, mf, hist)
                cr.counters["random_histories"] += 1
                cr.counters["lagged_queue_histories"] += 1 if lag else 0
        cr.nontrivial = True
        cr.sig = jhash(spec)
        return cr

    def _account(self, cr: CaseResult, out: Dict[str, Any], w: int, mf: int, hist: List[Any]) -> None:
        cr.counters["histories"] += 1
        played = hist[: out["ticks"]]
        if any(h[0] or h[1] or h[2] or (len(h) > 3 and h[3]) for h in played):
            cr.counters["nontrivial_histories"] += 1
        for e in out["trace"]:
            cr.events[e[1]] += 1
        if out["returned"]:
            cr.counters["returned_" + str(out["ret"])] += 1
        if out.get("reload"):
            cr.counters["histories_in_reload_mode"] += 1
        if out.get("boot"):
            cr.counters["histories_with_boot_crash"] += 1
        vs = self.judge(out, w, mf, hist)
        for x in vs:
            x.detail = {"workers": w, "max_fails": mf, "queue_lag": bool(out["world"].lag), "slow_exit": out["world"].slow_exit,
                        "reload_mode": bool(out.get("reload")), "boot_events": out.get("boot"), "max_tasks_per_child": out.get("mtpc"), "history": [list(map(_j, h)) for h in played],
                        "trace": [list(map(_j, e)) for e in out["trace"][:200]]}
        cr.violations += vs
        if cr.trace is None and any(h[0] for h in played) and len(out["trace"]) < 60:
            cr.trace = {"workers": w, "max_fails": mf, "history": [list(map(_j, h)) for h in played],
                        "trace": [list(map(_j, e)) for e in out["trace"]]}

    def shard_epilogue(self, tier: str, shard: int, rng: random.Random) -> Dict[str, int]:
        """Thorough tier, shard 0: the real ProcessManager with real multiprocessing workers under strace;
        invariants on the *syscall* trace (never more live workers than slots, signals only to own
        un-reaped workers, exactly one SIGINT per current worker on shutdown, no start afterwards) and
        agreement of the return value with the fake world.  A strace failure only shows in the counters."""
        if tier != "thorough" or shard != 0:
            return {}
        out = real_cross_check(10, rng.randint(0, 10 ** 9))
        self._real_witnesses = getattr(real_cross_check, "witnesses", [])
        return out

    def post_merge(self, merged: Dict[str, Any]) -> None:
        c = merged["counters"]
        if c.get("real_problems", 0):
            merged["violations"].setdefault("real-process-invariant", {"count": 0, "first": None})
            slot = merged["violations"]["real-process-invariant"]
            slot["count"] += c["real_problems"]
            if slot["first"] is None:
                slot["first"] = {"kind": "real-process-invariant", "msg": "invariant violated on the syscall trace of a real-process run",
                                 "detail": None, "spec": {"mode": "real", "note": "see counters; rerun thorough tier"}, "trace": None}

    def extra_evidence(self, merged: Dict[str, Any]) -> Dict[str, Any]:
        c = merged["counters"]
        return {
            "evaluations": c.get("histories", 0),
            "distinct_nontrivial": c.get("nontrivial_histories", 0),
            "exhaustive": True,
            "exhaustive_scope": "all histories over the per-tick alphabet (subsets of worker deaths x 9 signal/file options, see "
                                "'rule') up to the depth bounds, for max_fails in {-1,0,1,2,3} and both world modes; "
                                "extensions of a history after start() returned are pruned (they are equivalent); "
                                "random long histories are additional and not exhaustive",
            "batches": merged["evals"],
        }


def _j(x: Any) -> Any:
    if isinstance(x, tuple):
        return list(x)
    return x


RULE = ("Real ProcessManager.__init__/start() with the names Process, Queue, Event, sleep, os, signal, current_process "
        "of its module rebound to a fake process world (processes: new -> alive -> terminating -> dead(+reaped); join() "
        "on a live process nobody terminated is reported as blocking forever; os.kill raises ProcessLookupError for "
        "reaped pids; signal handlers captured and invoked from the fake sleep tick; file change = real "
        "schedule_workers_reload). Exhaustive: every history over the per-tick alphabet (any subset of workers dies) x "
        "{-, SIGHUP, SIGINT, SIGTERM, file change, SIGHUP+file change, SIGINT twice, SIGTERM then SIGHUP, SIGHUP then "
        "SIGINT} for (workers, depth) in quick {(1,5),(2,4)} / thorough {(1,7),(2,5),(3,4)}, every max_fails in "
        "{-1,0,1,2,3}, and two world modes: synchronous action queue with instantly exiting workers, and lagged queue "
        "(what the manager enqueues while processing becomes visible one tick later, as with multiprocessing.Queue's "
        "feeder thread) with workers that need 8 s to exit after SIGTERM; plus random histories of 50-300 ticks with "
        "1-3 workers in random modes. Evaluations = histories executed; non-trivial = the played part contains >=1 "
        "death or signal; histories are distinct by construction. Thorough tier adds 10 real-process runs under strace. ")


class C17(ProcCheck):
    pid = "C17"
    which = "C17"
    rule = RULE + ("Oracle C17: at every process start no other process of that slot is live; only slots 0..n-1 ever "
                   "start and all do; every worker that died at tick t has a replacement started by the end of tick "
                   "t+2 unless start() returned; start() never crashes or blocks.")
    floors = {"counters.histories": 20000, "events.died": 10000, "events.start": 50000, "counters.random_histories": 500}

    def judge(self, out: Dict[str, Any], w: int, mf: int, hist: List[Any]) -> List[Violation]:
        return oracle_c17(out, w, mf)

    def selftest(self) -> List[str]:
        out = {"trace": [(0, "start", "worker-0", 1000, ()), (1, "tick"), (1, "died", "worker-0", 1000), (2, "tick"),
                         (3, "tick"), (3, "start", "worker-0", 1001, (1000,)), (4, "tick")],
               "crash": None, "ticks": 4, "deaths": [(1, "worker-0", 1000, False)], "returned": False}
        kinds = {x.kind for x in oracle_c17(out, 1)}
        want = {"two-live-processes", "dead-worker-not-replaced"}
        return [] if want <= kinds else [f"C17 oracle missed {want - kinds}"]


class C18(ProcCheck):
    pid = "C18"
    which = "C18"
    rule = RULE + ("Oracle C18: return value -1 => max_fails>=1 and the manager had been told (is_alive() False) of "
                   ">= max_fails distinct dead workers; conversely once it has been told of max_fails deaths by the end "
                   "of tick t it exits during tick t+1; never -1 when max_fails<1; a slot is never restarted twice within "
                   "one tick and every reload-all request restarts every slot within that tick or the next, without "
                   "touching the budget; on SIGINT/SIGTERM it "
                   "returns None in that tick after sending SIGINT exactly once to every live current worker, to no "
                   "other pid, and starts nothing afterwards.")
    floors = {"counters.histories": 20000, "events.kill": 5000, "counters.returned_-1": 1000, "counters.returned_None": 5000,
              "counters.random_histories": 500}

    def judge(self, out: Dict[str, Any], w: int, mf: int, hist: List[Any]) -> List[Violation]:
        return oracle_c18(out, w, mf, hist)


# ------------------------------------------------------------------------------------
# real-process cross-check under strace (thorough tier): validates the fake world against Linux


def _parse_strace(path: str) -> List[Tuple[int, str, Any]]:
    import re

    ev: List[Tuple[int, str, Any]] = []
    pend: Dict[int, str] = {}
    for ln in open(path, errors="replace"):
        m = re.match(r"^(\d+)\s+(.*)$", ln.rstrip("\n"))
        if not m:
            continue
        pid, rest = int(m.group(1)), m.group(2)
        if rest.endswith("<unfinished ...>"):
            pend[pid] = rest[: -len("<unfinished ...>")]
            continue
        r = re.match(r"^<\.\.\. (\w+) resumed>(.*)$", rest)
        if r:
            rest = pend.pop(pid, r.group(1) + "(") + r.group(2)
        if rest.startswith(("clone(", "clone3(", "fork(", "vfork(")):
            r2 = re.search(r"=\s*(\d+)\s*$", rest)
            if r2 and "CLONE_THREAD" not in rest:
                ev.append((pid, "clone", int(r2.group(1))))
        elif rest.startswith("kill("):
            r2 = re.match(r"kill\((-?\d+),\s*(\w+)\s*\)\s*=\s*(-?\d+)", rest)
            if r2:
                ev.append((pid, "kill", (int(r2.group(1)), r2.group(2), int(r2.group(3)))))
        elif rest.startswith("wait4("):
            r2 = re.search(r"=\s*(\d+)\s*$", rest)
            if r2 and int(r2.group(1)) > 0:
                ev.append((pid, "reaped", int(r2.group(1))))
        elif rest.startswith("exit_group(") or rest.startswith("+++ killed") or rest.startswith("+++ exited"):
            ev.append((pid, "dead", None))
    return ev


def oracle_real(ev: List[Tuple[int, str, Any]], log: List[Any], workers: int, history: List[Any]) -> List[str]:
    problems: List[str] = []
    if not ev:
        return ["empty strace output"]
    mgr = ev[0][0]
    children: set = set()
    live: set = set()
    reaped: set = set()
    shutdown_seen = False
    handling = False  # the manager has begun to handle the shutdown (first SIGINT to a worker)
    sigint_sent: Dict[int, int] = {}
    driver_kills = {e[2] for e in log if e[0] == "driver_kill"}
    returned = [e for e in log if e[0] == "return"]
    for pid, kind, arg in ev:
        if kind == "clone" and pid == mgr:
            if handling and returned and returned[0][1] is None:
                problems.append(f"process {arg} started after shutdown handling began")
            children.add(arg)
            live.add(arg)
            if len(live) > workers:
                problems.append(f"{len(live)} live worker processes > {workers} slots (pids {sorted(live)})")
        elif kind == "dead":
            live.discard(pid)
        elif kind == "reaped" and pid == mgr:
            reaped.add(arg)
            live.discard(arg)
        elif kind == "kill" and pid == mgr:
            target, sig, rc = arg
            if target == mgr:
                if sig in ("SIGINT", "SIGTERM"):
                    shutdown_seen = True
                continue
            if sig == "SIGKILL":
                continue  # driver (fault injection / final cleanup), not the manager
            if target not in children:
                problems.append(f"manager signalled pid {target} ({sig}) which is not one of its workers")
            elif target in reaped:
                problems.append(f"manager signalled pid {target} ({sig}) after it had been reaped (pid may be reused)")
            if sig == "SIGINT":
                handling = True
                sigint_sent[target] = sigint_sent.get(target, 0) + 1
    if returned and returned[0][1] is None and shutdown_seen:
        current = returned[0][2]
        for p in current:
            n = sigint_sent.get(p, 0)
            if p in driver_kills and n <= 1:
                continue
            if n != 1:
                problems.append(f"shutdown: current worker {p} received SIGINT {n} times")
        for p in sigint_sent:
            if p not in current:
                problems.append(f"shutdown: SIGINT sent to {p}, not a current worker {current}")
    return problems


def real_cross_check(n: int, seed: int) -> Dict[str, int]:
    import shutil
    import subprocess
    import tempfile
    from concurrent.futures import ThreadPoolExecutor

    out = {"real_runs": 0, "real_runs_ok": 0, "real_strace_failed": 0, "real_fake_agree": 0, "real_problems": 0}
    if shutil.which("strace") is None:
        out["real_strace_failed"] = n
        return out
    rng = random.Random(seed)
    jobs = []
    for i in range(n):
        w = rng.choice([1, 2, 3])
        mf = rng.choice(MAX_FAILS)
        L = rng.randint(5, 9)
        alpha = alphabet(w)
        quiet = [a for a in alpha if not _is_shutdown(a[1])]
        hist = [rng.choice(quiet) if rng.random() < 0.6 else ((), None, False) for _ in range(L)]
        if rng.random() < 0.4:
            # a worker dies in the sleep, and the shutdown / reload signal arrives while the manager handles that
            # tick: after it drained its queue, before the health check (real signals, real reaping)
            hist.append(((rng.randrange(w),), None, False, [["drained", "sig", rng.choice(["TERM", "INT", "HUP"])]]))
            hist.append(((), None, False))
            hist.append(((), None, False))
        if rng.random() < 0.6:
            hist.append(((), rng.choice(["INT", "TERM"]), False))
        jobs.append((w, mf, hist))
    here = os.path.dirname(os.path.abspath(__file__))
    from mon.runner import REPO

    def one(job: Any) -> Any:
        w, mf, hist = job
        d = tempfile.mkdtemp(prefix="verif_pmreal_")
        try:
            st, lg = os.path.join(d, "st.txt"), os.path.join(d, "log.txt")
            cmd = ["strace", "-f", "-qq", "-e", "trace=clone,clone3,fork,vfork,kill,wait4,exit_group", "-o", st,
                   sys.executable, os.path.join(here, "pm_real.py"), REPO, str(w), str(mf),
                   json.dumps([[list(h[0]), h[1], h[2]] + ([h[3]] if len(h) > 3 else []) for h in hist]), lg]
            try:
                r = subprocess.run(cmd, capture_output=True, text=True, timeout=60)
            except subprocess.TimeoutExpired:
                return ("failed", "timeout", job)
            if not os.path.exists(st) or not os.path.exists(lg):
                return ("failed", r.stderr[-300:], job)
            log = [json.loads(x) for x in open(lg) if x.strip()]
            ev = _parse_strace(st)
            if not ev or not log:
                return ("failed", "no events", job)
            probs = oracle_real(ev, log, w, hist)
            crash = [e for e in log if e[0] == "crash"]
            if crash:
                probs.append(f"ProcessManager.start() raised {crash[0][1]}")
            has_mid = any(len(h) > 3 for h in hist)
            if has_mid:
                return ("ok", probs, job, False, True)
            fake = run_history(w, mf, [(tuple(h[0]), h[1], h[2]) for h in hist])
            real_ret = [e for e in log if e[0] == "return"]
            agree = (bool(real_ret) == fake["returned"]) and (not real_ret or real_ret[0][1] == fake["ret"])
            return ("ok", probs, job, agree, False)
        finally:
            shutil.rmtree(d, ignore_errors=True)

    with ThreadPoolExecutor(4) as ex:
        results = list(ex.map(one, jobs))
    witnesses = []
    for r in results:
        if r[0] == "failed":
            out["real_strace_failed"] += 1
            continue
        out["real_runs"] += 1
        if not r[1]:
            out["real_runs_ok"] += 1
        else:
            out["real_problems"] += 1
            witnesses.append({"workers": r[2][0], "max_fails": r[2][1], "history": [list(map(_j, h)) for h in r[2][2]], "problems": r[1][:5]})
        if r[3]:
            out["real_fake_agree"] += 1
        if r[4]:
            out["real_runs_with_mid_tick_signal"] = out.get("real_runs_with_mid_tick_signal", 0) + 1
    real_cross_check.witnesses = witnesses  # type: ignore[attr-defined]
    return out


import json  # noqa: E402
import os  # noqa: E402
import sys  # noqa: E402
