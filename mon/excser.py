"""C19 (exception round trips) and C20 (loading a stored error is safe)."""
from __future__ import annotations

import asyncio
import json
import math
import pickle
import random
import sys
import threading
import types
from typing import Any, Dict, Iterator, List, Optional, Tuple

import pydantic

import taskiq.exceptions
import taskiq.serialization as ser
from taskiq.result import TaskiqResult

from mon.args_labels import strict_eq
from mon.runner import REPO, CaseResult, Check, Violation, jhash

# ------------------------------------------------------------------------------------
# class pool (module level => importable)


class AppError(Exception):
    pass


class AppBase(BaseException):
    pass


class EqErr(Exception):
    """Value equality (like a @dataclass exception): distinct instances with equal args compare equal."""

    def __eq__(self, other: Any) -> bool:
        return type(other) is type(self) and other.args == self.args

    def __hash__(self) -> int:
        return hash((type(self).__name__, len(self.args)))


class EqRaises(Exception):
    """__eq__ that only copes with its own kind (reads an attribute foreign objects do not have)."""

    def __init__(self, *a: Any) -> None:
        super().__init__(*a)
        self.code = len(a)

    def __eq__(self, other: Any) -> bool:
        return other.code == self.code  # AttributeError for foreign types

    def __hash__(self) -> int:
        return 7


class Rebound(Exception):
    """A class whose module attribute is re-bound to a *new* class object of the same name now and then (module
    reload, plug-in re-registration): a loaded error must be an instance of the class that is importable now."""


def _rebind() -> type:
    cls = type("Rebound", (Exception,), {"__module__": __name__, "__doc__": "rebound"})
    globals()["Rebound"] = cls
    return cls


class _HiddenError(Exception):
    """Importable classes whose qualified name has an underscore-prefixed component (private by convention)."""


class _errors:  # noqa: N801
    class Conflict(LookupError):
        pass


class Outer:
    class Inner(ValueError):
        pass

    class _Throttled(RuntimeError):
        pass

    class Deep:
        class Deeper(KeyError):
            pass


class TwoArgs(Exception):
    def __init__(self, a: Any, b: Any) -> None:
        super().__init__(a, b)


class _RetryableMixin:
    """A marker mix-in (no exception): constructible without arguments, picklable."""


class MixedQuota(Exception, _RetryableMixin):
    """Exception + mix-in whose constructor cannot be replayed from .args (they are empty)."""

    def __init__(self, user: Any, limit: Any) -> None:
        super().__init__()
        self.user = user
        self.limit = limit


class CodeError(Exception):
    def __init__(self, code: Any, *, detail: Any = None) -> None:
        super().__init__(f"code {code}")
        self.code = code
        self.detail = detail


class NoArgInit(Exception):
    def __init__(self) -> None:
        super().__init__("fixed")


class BadStr(Exception):
    def __str__(self) -> str:
        raise RuntimeError("no str")


class BadRepr(Exception):
    def __repr__(self) -> str:
        raise RuntimeError("no repr")

    def __str__(self) -> str:
        raise RuntimeError("no str")


class Multi(AppError, KeyError):
    pass


class Falsy(Exception):
    def __bool__(self) -> bool:
        return False


class LenZero(Exception):
    def __len__(self) -> int:
        return 0


class RaisingInit(Exception):
    """Constructor that raises for the args it ends up with."""

    def __init__(self, *a: Any) -> None:
        if len(a) > 1:
            raise ValueError("too many")
        super().__init__(*a)


def _make_local() -> type:
    class Local(ValueError):
        pass

    return Local


def _make_local_plain() -> type:
    class LocalPlain(Exception):
        pass

    return LocalPlain


def _make_local_shadow() -> type:
    # a function-local class whose bare name is also the name of a module-level class of the same module
    # (`class AppError` above): stored under its full `f.<locals>.AppError` path it is not importable, so the loaded
    # error is a stand-in of that name - never an instance of the unrelated module-level class
    class AppError(KeyError):  # noqa: F811
        pass

    return AppError


LocalCls = _make_local()
LocalShadowCls = _make_local_shadow()
LocalPlainCls = _make_local_plain()
DynCls = type("DynErr", (Exception,), {"__module__": "no.such.module"})
DynBase = type("DynBaseErr", (BaseException,), {"__module__": "mon.excser"})  # name not bound in module
DynNoModule = type("NoModuleError", (Exception,), {})
DynNoModule.__module__ = None  # type: ignore[assignment]  # a class built at run time that claims no module at all
# classes built at run time whose module name is empty / a relative name (nothing importable goes by such a name)
DynEmptyModule = type("EmptyModuleError", (Exception,), {"__module__": ""})
DynDotModule = type("DotModuleError", (Exception,), {"__module__": ".hidden"})
DynDotsModule = type("DotsModuleError", (LookupError,), {"__module__": "..pkg.errors"})


def _plant_main_classes() -> Any:
    """Error classes of the script that is running (`__main__`): module-level and nested ones, importable there."""
    main = sys.modules["__main__"]
    top = type("VerifScriptError", (Exception,), {"__module__": "__main__"})
    inner = type("Inner", (ValueError,), {"__module__": "__main__", "__qualname__": "VerifScriptHolder.Inner"})
    holder = type("VerifScriptHolder", (), {"__module__": "__main__", "Inner": inner})
    main.VerifScriptError = top  # type: ignore[attr-defined]
    main.VerifScriptHolder = holder  # type: ignore[attr-defined]
    return top, inner


MainErr, MainInnerErr = _plant_main_classes()
from mon import shadow_errors as _shadow  # noqa: E402

POOL: Dict[str, Any] = {
    "ValueError": ValueError, "KeyError": KeyError, "OSError": OSError, "FileNotFoundError": FileNotFoundError,
    "ZeroDivisionError": ZeroDivisionError, "RuntimeError": RuntimeError, "TimeoutError": TimeoutError,
    "AssertionError": AssertionError, "StopIteration": StopIteration, "StopAsyncIteration": StopAsyncIteration,
    "SystemExit": SystemExit, "KeyboardInterrupt": KeyboardInterrupt, "GeneratorExit": GeneratorExit,
    "CancelledError": asyncio.CancelledError, "UnicodeDecodeError": UnicodeDecodeError, "SyntaxError": SyntaxError,
    "ExceptionGroup": ExceptionGroup, "ImportError": ImportError, "AttributeError": AttributeError,
    "Exception": Exception, "BaseException": BaseException, "LookupError": LookupError,
    "AppError": AppError, "AppBase": AppBase, "Inner": Outer.Inner, "Deeper": Outer.Deep.Deeper, "TwoArgs": TwoArgs,
    "CodeError": CodeError, "NoArgInit": NoArgInit, "BadStr": BadStr, "BadRepr": BadRepr, "Multi": Multi,
    "RaisingInit": RaisingInit, "Local": LocalCls, "LocalPlain": LocalPlainCls, "Dyn": DynCls, "DynBase": DynBase,
    "SecurityError": taskiq.exceptions.SecurityError, "NoResultError": taskiq.exceptions.NoResultError,
    "ValidationErrorLike": json.JSONDecodeError,
    "Hidden": _HiddenError, "PrivNsConflict": _errors.Conflict, "Throttled": Outer._Throttled,
    "EqErr": EqErr, "EqRaises": EqRaises, "Rebound": Rebound,
    "ShadowConnectionError": _shadow.ConnectionError, "ShadowTimeoutError": _shadow.TimeoutError, "ShadowKeyError": _shadow.KeyError,
    "DynNoModule": DynNoModule, "MixedQuota": MixedQuota,
    "DynEmptyModule": DynEmptyModule, "DynDotModule": DynDotModule, "DynDotsModule": DynDotsModule,
    "MainErr": MainErr, "MainInnerErr": MainInnerErr,
}
FALSY_POOL = {"Falsy": Falsy, "LenZero": LenZero}
POOL_ALL = dict(POOL)
POOL_ALL["LocalShadow"] = LocalShadowCls  # (not in POOL: it replaces "Local" nodes after the fact, see gen_graph)
POOL_ALL.update(FALSY_POOL)


class NeedsTwo(Exception):
    """Pickles (by reference + args) but cannot be un-pickled: cls(*args) has the wrong arity."""

    def __init__(self, a: Any, b: Any) -> None:
        super().__init__(f"{a}: {b}")


def _refuse_restore() -> Any:
    raise RuntimeError("cannot be restored from a snapshot")


class NoRestore:
    """dumps fine, loads raises."""

    def __reduce__(self) -> Any:
        return (_refuse_restore, ())

    def __repr__(self) -> str:
        return "<NoRestore>"


class Unrepr:
    def __repr__(self) -> str:
        raise RuntimeError("unreprable")

    def __str__(self) -> str:
        raise RuntimeError("unstrable")


ARG_KINDS = ["nestedexc", "norestore", "json", "json", "json", "str", "int", "tuple", "set", "bytes", "bigint", "nan", "inf", "lambda", "lock",
             "unrepr", "self", "none", "nested", "float", "obj", "type", "dictkeys", "frozen", "complex"]


def gen_arg(rng: random.Random) -> Dict[str, Any]:
    k = rng.choice(ARG_KINDS)
    if k == "json":
        from mon.args_labels import gen_json_tree

        return {"t": "json", "v": gen_json_tree(rng)}
    if k == "str":
        return {"t": "json", "v": rng.choice(["msg", "", "ünï ∆ 𝄞", "x" * 200, "a\x00b", "{}"])}
    if k == "int":
        return {"t": "json", "v": rng.randint(-1000, 1000)}
    if k == "float":
        return {"t": "json", "v": rng.choice([0.5, -1.25, 1e300])}
    if k == "nested":
        return {"t": "json", "v": [{"a": [1, 2.5, None, "s"]}, []]}
    return {"t": k}


def make_arg(a: Dict[str, Any], me: BaseException) -> Any:
    t = a["t"]
    if t == "json":
        return a["v"]
    return {
        "tuple": lambda: (1, "a", (2,)), "set": lambda: {1, 2}, "bytes": lambda: b"\xff\x00by", "bigint": lambda: 2 ** 200,
        "nan": lambda: float("nan"), "inf": lambda: float("-inf"), "lambda": lambda: (lambda: 1),
        "lock": threading.Lock, "unrepr": Unrepr, "self": lambda: me, "none": lambda: None, "obj": object,
        "type": lambda: int, "dictkeys": lambda: {1: "a", (1, 2): "b"}, "frozen": lambda: frozenset({1}),
        "complex": lambda: 1 + 2j, "surrogate": lambda: "bad \udc80 surrogate",
        "nestedexc": lambda: NeedsTwo(503, "unavailable"), "norestore": NoRestore,
        "syn": lambda: ("file.py", 1, 2, "text"), "excs": lambda: [ValueError(1), AppError("in group")],
    }[t]()


def gen_graph(rng: random.Random, maxn: int = 6, falsy: bool = False, surrogate: bool = False) -> Dict[str, Any]:
    n = rng.choice([1, 1, 2, 2, 3, 4, maxn])
    nodes = []
    names = list(POOL)
    for i in range(n):
        cls = rng.choice(names)
        if falsy and rng.random() < 0.3:
            cls = rng.choice(list(FALSY_POOL))
        if cls == "UnicodeDecodeError":
            args = [{"t": "json", "v": "utf-8"}, {"t": "bytes"}, {"t": "json", "v": 0}, {"t": "json", "v": 1}, {"t": "json", "v": "bad"}]
        elif cls == "SyntaxError":
            args = [{"t": "json", "v": "bad syntax"}] if rng.random() < 0.5 else [{"t": "json", "v": "m"}, {"t": "syn"}]
        elif cls == "ExceptionGroup":
            args = [{"t": "json", "v": "group"}, {"t": "excs"}]
        elif cls == "TwoArgs":
            args = [gen_arg(rng), gen_arg(rng)]
        elif cls == "CodeError":
            args = [{"t": "json", "v": rng.randint(0, 9)}]
        elif cls in ("NoArgInit", "MixedQuota"):
            args = []
        elif cls in ("OSError", "FileNotFoundError") and rng.random() < 0.5:
            args = [{"t": "json", "v": 2}, {"t": "json", "v": "No such file"}]
        elif cls == "ValidationErrorLike":
            args = [{"t": "json", "v": "msg"}, {"t": "json", "v": "doc"}, {"t": "json", "v": 0}]
        elif cls == "SecurityError":
            args = []
        elif cls == "EqErr":
            args = [{"t": "json", "v": rng.choice(["same", "same", 503])}]  # equal instances on one path are likely
        else:
            args = [gen_arg(rng) for _ in range(rng.choice([0, 1, 1, 2, 3]))]
        if surrogate and rng.random() < 0.3:
            args.append({"t": "surrogate"})
        nodes.append({"cls": cls, "args": args, "cause": None, "context": None, "suppress": None,
                      # state attached to the instance after construction (callback, lock): not part of args
                      "attr": rng.choice([None, None, None, None, "lock", "lambda", "plain"])})
    # (a stream of its own: the choices above and below stay what they were for every seed)
    rng_sh = random.Random(f"shadow-{n}-{[nd['cls'] for nd in nodes]}-{len(nodes[0]['args'])}")
    for nd in nodes:
        if nd["cls"] == "Local" and rng_sh.random() < 0.5:
            nd["cls"] = "LocalShadow"
    r_ = rng.random()
    if n > 1 and r_ < 0.06:
        for nd_ in nodes:  # a chain of distinct but equal-valued errors (retries of one failing call)
            nd_["cls"], nd_["args"] = "EqErr", [{"t": "json", "v": "same"}]
    elif n > 1 and r_ < 0.10:
        nodes[rng.randrange(n)].update({"cls": "EqRaises", "args": [{"t": "json", "v": 1}]})
    for i in range(n):
        if n > 1 or rng.random() < 0.2:
            if rng.random() < 0.5:
                nodes[i]["cause"] = rng.randrange(n) if rng.random() < 0.8 else i
            if rng.random() < 0.5:
                nodes[i]["context"] = rng.randrange(n) if rng.random() < 0.8 else i
        if rng.random() < 0.5:
            nodes[i]["suppress"] = rng.random() < 0.5
    # bias: make a simple forward chain likely
    if n > 1 and rng.random() < 0.4:
        for i in range(n - 1):
            nodes[i]["cause" if rng.random() < 0.5 else "context"] = i + 1
    g: Dict[str, Any] = {"nodes": nodes}
    if rng.random() < 0.15:
        # the result object was encoded once before (an audit hook, a log line) with another error; the error was then
        # replaced - by assignment or on a copy - and the object is stored
        g["prior_dump"] = rng.choice(["assign", "copy"])
    return g


def build_graph(g: Dict[str, Any]) -> List[BaseException]:
    excs: List[BaseException] = []
    rebound_cls = _rebind() if any(nd["cls"] == "Rebound" for nd in g["nodes"]) else None
    for nd in g["nodes"]:
        cls = POOL_ALL[nd["cls"]] if nd["cls"] != "Rebound" else rebound_cls
        if nd["cls"] == "CodeError":
            e: BaseException = cls(nd["args"][0]["v"], detail="d")
        elif nd["cls"] == "NoArgInit":
            e = cls()
        elif nd["cls"] == "MixedQuota":
            e = cls("user-7", 3)
        elif nd["cls"] == "SecurityError":
            e = cls(description="sec")
        elif nd["cls"] == "ExceptionGroup" and len(nd["args"]) == 2:
            e = cls("group", [ValueError(1), AppError("in group")])
        else:
            args = tuple(make_arg(a, None) for a in nd["args"])  # type: ignore[arg-type]
            try:
                e = cls(*args)
            except Exception:  # constructor rejected the args: fall back to a simpler construction
                try:
                    e = cls.__new__(cls)
                    e.args = args
                except Exception:
                    e = AppError(*args)
            if any(a["t"] == "self" for a in nd["args"]):
                # 'self' args must refer to the final object
                e.args = tuple(e if a["t"] == "self" else x for a, x in zip(nd["args"], e.args))
        if nd.get("attr") and not isinstance(e, (ExceptionGroup,)):
            try:
                e.extra_state = {"lock": threading.Lock, "lambda": lambda: (lambda: 1), "plain": lambda: {"k": 1}}[nd["attr"]]()  # type: ignore[attr-defined]
            except Exception:  # noqa: BLE001
                pass
        excs.append(e)
    for nd, e in zip(g["nodes"], excs):
        if nd["cause"] is not None:
            e.__cause__ = excs[nd["cause"]]
        if nd["context"] is not None:
            e.__context__ = excs[nd["context"]]
        if nd["suppress"] is not None:
            e.__suppress_context__ = nd["suppress"]
    return excs


# ------------------------------------------------------------------------------------
# oracle helpers


def importable(cls: type) -> bool:
    mod = sys.modules.get(cls.__module__)
    if mod is None:
        return False
    obj: Any = mod
    try:
        for part in cls.__qualname__.split("."):
            obj = getattr(obj, part)
    except AttributeError:
        return False
    return obj is cls


def json_stable(a: Any) -> bool:
    """JSON-native: strict JSON (no NaN/Infinity, no lone surrogates) and type-preserving round trip."""
    try:
        s = json.dumps(a, allow_nan=False)
        s.encode("utf-8")
        json.dumps(a, ensure_ascii=False).encode("utf-8")
        return strict_eq(json.loads(s), a)
    except Exception:  # noqa: BLE001
        return False


def pickle_stable(a: Any) -> bool:
    try:
        b = pickle.loads(pickle.dumps(a))
        return strict_eq(b, a) or b == a
    except Exception:  # noqa: BLE001
        return False


def reconstructible(cls: type, args: Tuple[Any, ...]) -> bool:
    try:
        e = cls(*args)
        return len(e.args) == len(args) and all(x is y or strict_eq(x, y) for x, y in zip(e.args, args))
    except BaseException:  # noqa: BLE001
        return False


def names_class(loaded: BaseException, cls: type) -> bool:
    nm = {cls.__name__, cls.__qualname__}
    if type(loaded).__name__ in nm or getattr(type(loaded), "__qualname__", "") in nm:
        return True
    if getattr(loaded, "exc_cls_name", None) in nm:
        return True
    for f in (str, repr):
        try:
            if cls.__name__ in f(loaded):
                return True
        except Exception:  # noqa: BLE001
            pass
    try:
        if any(isinstance(a, str) and cls.__name__ in a for a in loaded.args):
            return True
    except Exception:  # noqa: BLE001
        pass
    return False


def class_relation(orig: BaseException, loaded: Any, mode: str) -> Optional[str]:
    """None if acceptable, else a description."""
    if not isinstance(loaded, BaseException):
        return f"loaded error is {type(loaded).__name__}, not an exception"
    cls = type(orig)
    args = orig.args
    stable = all((json_stable(a) if mode != "pickle" else pickle_stable(a)) for a in args)
    if importable(cls) and stable and reconstructible(cls, args):
        if mode == "pickle":
            try:
                # the class itself must survive pickling when freshly built from its args (instance state
                # attached later - a callback, a lock - is not part of the statement's condition)
                pickle.loads(pickle.dumps(cls(*args)))
            except Exception:  # noqa: BLE001  (class-specific pickling problem: stand-in allowed)
                stable = False
        if stable:
            if type(loaded) is not cls:
                return f"class {cls.__module__}.{cls.__qualname__} is importable with representable args {args!r} but loaded as {type(loaded).__module__}.{type(loaded).__qualname__}"
            if not (len(loaded.args) == len(args) and all(strict_eq(x, y) or x == y for x, y in zip(loaded.args, args))):
                return f"args changed: {args!r} -> {loaded.args!r}"
            return None
    # stand-in
    if mode == "pickle":
        # whatever stands in carries the arguments: the encodable ones as they were, the others as text
        la: Any = None
        if type(loaded).__name__ == "_UnpickleableExceptionWrapper":
            la = getattr(loaded, "exc_args", None)
        elif type(loaded).__module__ == "builtins" or type(loaded) is cls:
            la = loaded.args
        plain = not issubclass(cls, OSError) and all("__init__" not in k.__dict__ and "__new__" not in k.__dict__
                                                      for k in cls.__mro__ if k.__module__ != "builtins")
        if la is not None and plain:
            # (classes that keep what they were called with in .args - no __init__/__new__ of their own up the MRO)
            if len(la) != len(args):
                return f"arguments lost: {len(args)} sent ({_safe(args)}), {len(la)} in the stand-in {type(loaded).__name__} ({_safe(tuple(la))})"
            for x, y in zip(la, args):
                if pickle_stable(y) and not (strict_eq(x, y) or x == y):
                    return f"args changed: {_safe(args)} -> {_safe(tuple(la))}"
    if type(loaded) is cls:
        if mode != "pickle" and importable(cls) and reconstructible(cls, args) and not any(isinstance(a, BaseException) for a in args):
            # same class rebuilt from the stored arguments: every argument is still there, in its place - the representable
            # ones equal, the others as text
            if len(loaded.args) != len(args):
                return f"arguments lost: {len(args)} sent ({_safe(args)}), {len(loaded.args)} loaded ({_safe(loaded.args)})"
            for x, y in zip(loaded.args, args):
                if json_stable(y) and not (strict_eq(x, y) or x == y):
                    return f"args changed: {_safe(args)} -> {_safe(loaded.args)}"
        return None
    if type(loaded) in cls.__mro__ and type(loaded) not in (Exception, BaseException, object):
        return None
    if names_class(loaded, cls):
        lt = type(loaded)
        if lt is not cls and lt.__module__ != "builtins" and importable(lt) and lt.__name__ == cls.__name__ \
                and not importable(cls):
            # an existing, importable class that merely has the same bare name as a class that cannot be imported
            # (function-local, dynamic): an unrelated real class is not a stand-in for the error that was raised
            return (f"error of the non-importable class {cls.__module__}.{cls.__qualname__} loaded as an instance of the unrelated "
                    f"existing class {lt.__module__}.{lt.__qualname__}")
        return None
    return f"stand-in {type(loaded).__module__}.{type(loaded).__qualname__}({_safe(loaded)}) neither shares the name, nor is a base, nor names {cls.__qualname__}"


def _safe(x: Any) -> str:
    try:
        return repr(x)[:200]
    except Exception:  # noqa: BLE001
        return "<unrepr>"


def check_chain(orig: BaseException, loaded: BaseException, mode: str, path: frozenset, out: List[str], depth: int = 0) -> int:
    """Walk the original graph depth-first; returns number of links checked."""
    n = 0
    rel = class_relation(orig, loaded, mode)
    if rel:
        out.append(f"node depth {depth}: {rel}")
        return n
    path = path | {id(orig)}
    oc = orig.__cause__
    exp_cause = oc is not None and id(oc) not in path
    lc = loaded.__cause__
    n += 1
    if exp_cause != (lc is not None):
        out.append(f"cause link at depth {depth}: original {'has' if exp_cause else 'has no (or cut)'} cause {type(oc).__name__ if oc is not None else None}, loaded has {type(lc).__name__ if lc is not None else None}")
    elif exp_cause:
        n += check_chain(oc, lc, mode, path, out, depth + 1)
    ox = orig.__context__
    exp_ctx = ox is not None and not orig.__suppress_context__ and id(ox) not in path
    lx = loaded.__context__
    n += 1
    if exp_ctx != (lx is not None):
        out.append(f"context link at depth {depth}: original {'has' if exp_ctx else 'has no (or suppressed/cut)'} context, loaded has {type(lx).__name__ if lx is not None else None}")
    elif exp_ctx:
        n += check_chain(ox, lx, mode, path, out, depth + 1)
    if bool(loaded.__suppress_context__) != bool(orig.__suppress_context__):
        out.append(f"suppress flag at depth {depth}: {orig.__suppress_context__} -> {loaded.__suppress_context__}")
    return n


def has_surrogate(excs: List[BaseException]) -> bool:
    def walk(x: Any, d: int = 0) -> bool:
        if isinstance(x, str):
            return any(0xD800 <= ord(c) <= 0xDFFF for c in x)
        if d > 4:
            return False
        if isinstance(x, (list, tuple, set, frozenset)):
            return any(walk(y, d + 1) for y in x)
        if isinstance(x, dict):
            return any(walk(k, d + 1) or walk(y, d + 1) for k, y in x.items())
        return False
    return any(walk(list(e.args)) for e in excs)


def has_falsy(excs: List[BaseException]) -> bool:
    for e in excs:
        try:
            if not e:
                return True
        except Exception:  # noqa: BLE001
            pass
    return False


MODES = ["json-text", "json-dict", "python-dict", "pickle", "pickle+init"]


def round_trip(res: TaskiqResult, mode: str) -> Any:
    if mode == "json-text":
        return TaskiqResult.model_validate_json(res.model_dump_json())
    if mode == "json-dict":
        return TaskiqResult.model_validate(res.model_dump(mode="json"))
    if mode == "python-dict":
        return TaskiqResult.model_validate(res.model_dump())
    back = pickle.loads(pickle.dumps(res))
    if mode == "pickle+init":
        # a backend that un-pickles and builds a fresh result object from the fields (the model's own validation runs,
        # as it does for every TaskiqResult(...) call)
        return TaskiqResult(**{k: getattr(back, k) for k in ("is_err", "log", "return_value", "execution_time", "labels", "error")})
    return back


def run_c19(spec: Dict[str, Any]) -> "tuple[List[Violation], Dict[str, Any]]":
    v: List[Violation] = []
    obs: Dict[str, Any] = {"links": 0, "trips": 0}
    for mode in MODES:
        excs = build_graph(spec)  # fresh objects per mode (pickling mutates the result's error field)
        root = excs[0]
        falsy = has_falsy(excs)
        surr = has_surrogate(excs)
        try:
            res = TaskiqResult(is_err=True, return_value=None, execution_time=0.1, error=root)
            if spec.get("prior_dump") and not mode.startswith("pickle"):
                res = TaskiqResult(is_err=True, return_value=None, execution_time=0.1, error=RuntimeError("decoy", 0))
                res.model_dump_json()
                res.model_dump(mode="json")
                if spec["prior_dump"] == "assign":
                    res.error = root
                else:
                    res = res.model_copy(update={"error": root})
                obs["prior_dumps"] = obs.get("prior_dumps", 0) + 1
            back = round_trip(res, mode)
            obs["trips"] += 1
        except BaseException as exc:  # noqa: BLE001
            if isinstance(exc, (KeyboardInterrupt, MemoryError)) and not isinstance(root, KeyboardInterrupt):
                raise
            kind = "roundtrip-raised"
            txt = f"{type(exc).__name__}: {str(exc)[:300]}"
            if mode == "json-text" and surr and "surrogate" in txt.lower():
                kind = "lone-surrogate-json-text"
            elif falsy and "Unable to serialize unknown type" in txt:
                kind = "falsy-exception"
            v.append(Violation(kind, f"{mode}: storing/loading raised {txt}", {"mode": mode}))
            continue
        err = back.error
        if err is None or not isinstance(err, BaseException):
            kind = "falsy-exception" if falsy else "error-lost"
            v.append(Violation(kind, f"{mode}: loaded error is {err!r} for original {type(root).__name__}", {"mode": mode}))
            continue
        problems: List[str] = []
        if mode.startswith("pickle"):
            rel = class_relation(root, err, "pickle")
            if rel:
                if type(root) in (Exception, BaseException) and hasattr(root, "extra_state") and names_class(err, type(root)) \
                        and (type(err).__name__ == "_UnpickleableExceptionWrapper"
                             or (mode == "pickle+init" and type(err) is not type(root) and type(err).__name__ == type(root).__name__)):
                    # (F13; in the pickle+init mode the wrapper has been turned into its same-named synthetic class)
                    v.append(Violation("bare-exception-with-unpicklable-state", f"pickle: {rel}", {"mode": mode}))
                else:
                    problems.append(rel)
        else:
            obs["links"] += check_chain(root, err, mode, frozenset(), problems)
        for pbl in problems[:2]:
            kind = "chain-or-class-mismatch"
            v.append(Violation(kind, f"{mode}: {pbl}", {"mode": mode}))
    ser.SEEN_EXCEPTIONS_CACHE.clear()
    return v, obs


class C19(Check):
    pid = "C19"
    rule = ("Case = exception graph of 1-6 nodes: classes from a pool of 45 (builtins incl. OSError family, "
            "UnicodeDecodeError, SyntaxError, ExceptionGroup, StopIteration, SystemExit, KeyboardInterrupt, "
            "GeneratorExit, CancelledError; module-level, nested, function-local, type()-created with missing module or "
            "unbound name; custom __init__ (extra positional, keyword-only, no-arg, raising); __str__/__repr__ that "
            "raise; multiple inheritance; falsy exceptions (__bool__/__len__)), args from JSON trees, tuples, sets, "
            "bytes, huge ints, NaN/inf, lambdas, locks, un-repr-able objects, the exception itself, lone-surrogate "
            "strings; cause/context links forward, backward (cycles), shared and self links; random "
            "__suppress_context__. Each graph goes through TaskiqResult JSON text, JSON dict (mode=json), python "
            "dict and pickle round trips. Oracle: no call raises; loaded error is a BaseException; original class "
            "and equal args whenever the class is importable, args stable in the encoding and cls(*args).args == "
            "args, else an accepted stand-in (same name, MRO base other than Exception, or text naming the class); "
            "for the JSON modes a depth-first walk with a path set checks cause link, context link unless "
            "suppressed, suppress flag and the class relation at every node. Non-trivial: >=2 nodes or an "
            "un-encodable argument; distinct = distinct (class, arg kinds, links) graphs.")
    floors = {"counters.round_trips": 8000, "counters.links_checked": 8000, "counters.cyclic_graphs": 200}
    quick_cases = 8000
    thorough_cases = 300000
    thorough_time = 400.0
    assumptions = [
        "concurrent serialisation of one exception object from two threads (global SEEN cache) is out of scope: C19 quantifies over inputs",
        "exception classes whose .args attribute itself raises are out of scope",
    ]

    def cases(self, rng: random.Random, tier: str, shard: int, nshards: int) -> Iterator[Any]:
        while True:
            yield gen_graph(rng, 6, falsy=rng.random() < 0.08, surrogate=rng.random() < 0.08)

    def run_case(self, spec: Dict[str, Any]) -> CaseResult:
        cr = CaseResult()
        v, obs = run_c19(spec)
        cr.violations += v
        cr.counters["round_trips"] += obs["trips"]
        cr.counters["links_checked"] += obs["links"]
        nodes = spec["nodes"]
        cyc = any(nd["cause"] is not None and nd["cause"] <= i or nd["context"] is not None and nd["context"] <= i for i, nd in enumerate(nodes))
        if cyc:
            cr.counters["cyclic_graphs"] += 1
        cr.events["round_trip"] += obs["trips"]
        hard = {"nestedexc", "norestore", "tuple", "set", "bytes", "lambda", "lock", "unrepr", "self", "obj", "type", "dictkeys", "frozen", "complex", "nan", "inf", "surrogate"}
        cr.nontrivial = len(nodes) >= 2 or any(a["t"] in hard for nd in nodes for a in nd["args"])
        cr.sig = jhash([(nd["cls"], [a["t"] for a in nd["args"]], nd["cause"], nd["context"], nd["suppress"]) for nd in nodes])
        cr.trace = {"nodes": [(nd["cls"], [a["t"] for a in nd["args"]], nd["cause"], nd["context"], nd["suppress"]) for nd in nodes]}
        return cr

    def selftest(self) -> List[str]:
        f = []
        a = ValueError("x")
        b = KeyError("y")
        a.__cause__ = b
        la = ValueError("x")
        out: List[str] = []
        check_chain(a, la, "json-text", frozenset(), out)
        if not any("cause link" in o for o in out):
            f.append("C19 chain oracle missed a dropped cause")
        if class_relation(ValueError("x"), KeyError("x"), "json-text") is None:
            f.append("C19 class oracle accepted a wrong class")
        if class_relation(LocalCls("x"), ValueError("x"), "pickle") is not None:
            f.append("C19 class oracle rejected a legitimate base-class stand-in")
        return f


# ------------------------------------------------------------------------------------
# C20


TRAP_LOG: List[str] = []


def _trap_fn(*a: Any, **k: Any) -> str:
    TRAP_LOG.append("fn")
    return "called"


class _TrapCls:
    def __new__(cls, *a: Any, **k: Any) -> Any:
        TRAP_LOG.append("Cls.__new__")
        return super().__new__(cls)

    def __init__(self, *a: Any, **k: Any) -> None:
        TRAP_LOG.append("Cls.__init__")


class _Meta(type):
    def __call__(cls, *a: Any, **k: Any) -> Any:
        TRAP_LOG.append("Meta.__call__")
        return None


class _MetaCls(metaclass=_Meta):
    pass


class _CallableInst:
    def __call__(self, *a: Any, **k: Any) -> Any:
        TRAP_LOG.append("inst.__call__")
        return 1

    # (code of a planted object that merely *describing* it would run)
    def __repr__(self) -> str:
        TRAP_LOG.append("inst.__repr__")
        return "<inst>"

    def __str__(self) -> str:
        TRAP_LOG.append("inst.__str__")
        return "inst"


class _ClassLike:
    """Not a class, but dressed like one: issubclass() walks __bases__ of non-type objects instead of raising."""
    __bases__ = (ValueError,)
    __name__ = "ClassLike"
    __qualname__ = "ClassLike"

    def __call__(self, *a: Any, **k: Any) -> Any:
        TRAP_LOG.append("classlike.__call__")
        return ValueError("made by a trap")


class _Holder:
    fn = staticmethod(_trap_fn)

    class Inner:
        def __init__(self, *a: Any) -> None:
            TRAP_LOG.append("Holder.Inner")

    class Err(ValueError):
        pass

    @classmethod
    def cm(cls, *a: Any) -> Any:
        TRAP_LOG.append("Holder.cm")
        return 1


class _ExcOk(Exception):
    pass


class _ExcSub(_TrapCls, Exception):
    """Exception subclass with a recording base: calling it is allowed (it IS an exception class)."""


def install_trapmod() -> None:
    import os
    import subprocess

    m = types.ModuleType("trapmod")
    m.fn = _trap_fn  # type: ignore[attr-defined]
    m.Cls = _TrapCls  # type: ignore[attr-defined]
    m.MetaCls = _MetaCls  # type: ignore[attr-defined]
    m.inst = _CallableInst()  # type: ignore[attr-defined]
    m.Holder = _Holder  # type: ignore[attr-defined]
    m.ExcOk = _ExcOk  # type: ignore[attr-defined]
    m.sub = os  # type: ignore[attr-defined]
    m.sp = subprocess  # type: ignore[attr-defined]
    m.classlike = _ClassLike()  # type: ignore[attr-defined]
    m.table = {"k": m.inst, "l": [m.inst]}  # type: ignore[attr-defined]  # containers holding the instance
    m.bound = m.inst.__call__  # type: ignore[attr-defined]  # a bound method of it

    def spoof(*a: Any, **k: Any) -> str:
        TRAP_LOG.append("spoof")
        return "called"

    spoof.__module__ = "taskiq.serialization"  # a planted function claiming to be one of the library's own
    m.spoof = spoof  # type: ignore[attr-defined]
    m.value = 42  # type: ignore[attr-defined]

    class _AttrDict(dict):  # type: ignore[type-arg]
        """A settings object: attribute access is item access (unknown names raise KeyError, not AttributeError)."""

        __getattr__ = dict.__getitem__

    m.settings = _AttrDict(fn=_trap_fn, Err=_ExcOk)  # type: ignore[attr-defined]
    # a recording function / non-exception class decorated with functools.wraps(<an exception class>): __wrapped__ points
    # at an exception class, the object itself is not one
    m.wrapped_fn = __import__("functools").wraps(_ExcOk, updated=())(lambda *a, **k: _trap_fn(*a, **k))  # type: ignore[attr-defined]

    class _WrappedCls(_TrapCls):
        __wrapped__ = ValueError

    m.WrappedCls = _WrappedCls  # type: ignore[attr-defined]
    m.none = None  # type: ignore[attr-defined]
    m.lam = lambda *a: TRAP_LOG.append("lam")  # type: ignore[attr-defined]  # noqa: E731
    m.partial = __import__("functools").partial(_trap_fn)  # type: ignore[attr-defined]
    import builtins

    builtins._verif_builtin_trap = _trap_fn  # type: ignore[attr-defined]
    builtins._VerifBuiltinTrapCls = _TrapCls  # type: ignore[attr-defined]
    sys.modules["trapmod"] = m
    flip = types.ModuleType("flipmod")
    _state = {"n": 0}

    def _flip_getattr(name: str) -> Any:
        # a module whose attribute lookup is not idempotent (PEP 562 hook, lazy loader, another thread re-binding it):
        # every odd access gives an exception class, every even one a recording non-exception class
        if name != "Err":
            raise AttributeError(name)
        _state["n"] += 1
        return _ExcOk if _state["n"] % 2 else _TrapCls

    flip.__getattr__ = _flip_getattr  # type: ignore[attr-defined]
    sys.modules["flipmod"] = flip
    sub = types.ModuleType("trapmod.deep")
    sub.fn = _trap_fn  # type: ignore[attr-defined]
    sub.Err = _ExcOk  # type: ignore[attr-defined]
    sys.modules["trapmod.deep"] = sub
    m.deep = sub  # type: ignore[attr-defined]


NOT_LOADED = ["colorsys", "xml.dom.minidom", "tabnanny", "chunk", "sndhdr", "wave", "mailcap", "nntplib",
              # submodules whose parent package is (normally) already loaded
              "encodings.cp1252", "encodings.rot_13", "encodings.koi8_r", "json.tool", "email.mime", "logging.config",
              "multiprocessing.dummy", "ctypes.util", "importlib.simple", "asyncio.__main__", "pydantic.v1.tools",
              "taskiq.cli.watcher", "taskiq.serializers.msgpack_serializer",
              # optional sub-packages of taskiq itself that `import taskiq` does not load
              "taskiq.api", "taskiq.cli", "taskiq.schedule_sources", "taskiq.cli.worker.run"]

CATALOGUE: List[Tuple[Optional[str], str]] = [
    ("os", "system"), ("os", "popen"), ("os", "path.exists"), ("os", "environ"), ("subprocess", "call"), ("subprocess", "Popen"),
    ("builtins", "eval"), ("builtins", "exec"), ("builtins", "print"), ("builtins", "object"), ("builtins", "dict"),
    ("builtins", "type"), ("builtins", "open"), ("builtins", "__import__"), ("builtins", "compile"), ("builtins", "str.format"),
    ("builtins", "int"), ("builtins", "list"), ("builtins", "bytearray"), ("builtins", "memoryview"), ("builtins", "callable"),
    ("builtins", "Exception.__class__"), ("builtins", "Exception.mro"), ("builtins", "Exception.__subclasses__"),
    ("builtins", "BaseException.__base__"), ("builtins", "Exception.__init__"), ("builtins", "Exception.with_traceback"),
    ("builtins", "ValueError.__new__"), ("builtins", "Exception.__mro__"), ("builtins", "Exception.__dict__"),
    ("builtins", "None"), ("builtins", "True"), ("builtins", "NotImplemented"), ("builtins", "Ellipsis"),
    ("trapmod", "fn"), ("trapmod", "Cls"), ("trapmod", "MetaCls"), ("trapmod", "inst"), ("trapmod", "Holder"),
    ("trapmod", "Holder.fn"), ("trapmod", "Holder.Inner"), ("trapmod", "Holder.cm"), ("trapmod", "sub.system"),
    ("trapmod", "sp.run"), ("trapmod", "value"), ("trapmod", "none"), ("trapmod", "lam"), ("trapmod", "partial"),
    ("trapmod", "deep.fn"), ("trapmod", "deep"), ("trapmod", "sub"), ("trapmod.deep", "fn"), ("trapmod", "__class__"),
    ("trapmod", "__dict__"), ("trapmod", "__getattribute__"), ("trapmod", "Cls.__new__"), ("trapmod", "Cls.__init__"),
    # objects defined by taskiq itself that are not exception classes (their __module__ is a taskiq module)
    ("taskiq.serialization", "safe_repr"), ("taskiq.serialization", "create_exception_cls"), ("taskiq.serialization", "ExceptionRepr"),
    ("taskiq.serialization", "exception_to_python"), ("taskiq.exceptions", "BaseModel"), ("taskiq.result.v2", "prepare_exception"),
    ("taskiq.serialization", "_UnpickleableExceptionWrapper.restore"), ("trapmod", "spoof"), ("os", "_"), ("builtins", "KeyError._"),
    ("builtins", "ValueError."), ("builtins", ".ValueError"), ("builtins", "ValueError..args"),
    ("trapmod", "table"), ("trapmod", "bound"), ("trapmod", "inst.__call__"), ("flipmod", "Err"), ("flipmod", "Err"),
    ("trapmod", "classlike"), ("trapmod", "Holder.__bases__"), ("sys", "path"), ("sys", "flags"), ("os", "environ.copy"),
    ("sys", "exit"), ("sys", "modules"), ("sys", "getrecursionlimit"), ("shutil", "which"), ("pickle", "loads"),
    ("importlib", "import_module"), ("typing", "Any"), ("json", "loads"), ("threading", "Thread"), ("asyncio", "run"),
    ("taskiq.brokers.inmemory_broker", "InmemoryResultBackend"), ("taskiq.state", "TaskiqState"), ("taskiq", "InMemoryBroker"),
    ("pydantic", "BaseModel"), ("logging", "getLogger"), ("os", "getcwd"), ("os", "getpid"), ("os", "cpu_count"), ("signal", "getsignal"),
    # exception classes: must load
    ("builtins", "ValueError"), ("builtins", "KeyError"), ("builtins", "BaseException"), ("builtins", "SystemExit"),
    ("builtins", "KeyboardInterrupt"), ("builtins", "OSError"), ("builtins", "ExceptionGroup"), ("trapmod", "ExcOk"),
    ("trapmod", "Holder.Err"), ("trapmod", "deep.Err"), ("taskiq.exceptions", "SecurityError"), ("taskiq.exceptions", "NoResultError"),
    ("asyncio", "CancelledError"), ("json", "JSONDecodeError"), ("mon.excser", "AppError"), ("mon.excser", "Outer.Inner"),
    ("mon.excser", "_ExcSub"),
    # unresolvable
    ("builtins", "NoSuchThing"), ("nosuchmodule", "Err"), ("trapmod", "missing.attr"), ("os", "system.nope"), (None, "Ghost"),
    (None, "os.system"), ("", "x"), ("builtins", ""), ("trapmod", "Holder..fn"), ("builtins", "ValueError.nope"),
    # not loaded / not existing module, and a name that every object (None included) has as an attribute
    ("nosuchmodule", "__class__"), ("nosuchmodule", "__doc__"), ("colorsys", "__init__"), ("nosuchmodule", "__class__.__name__"),
    ("tabnanny", "__eq__"), ("nosuchmodule", "__bool__"), ("chunk", "__reduce__"), ("nosuchmodule", "__new__"),
    ("colorsys", "rgb_to_hls"), ("xml.dom.minidom", "parse"), ("tabnanny", "check"), ("chunk", "Chunk"), ("wave", "open"),
    ("encodings.cp1252", "Codec"), ("encodings.rot_13", "rot13"), ("encodings.koi8_r", "getregentry"), ("json.tool", "main"),
    ("email.mime", "text"), ("logging.config", "fileConfig"), ("multiprocessing.dummy", "Pool"), ("ctypes.util", "find_library"),
    ("importlib.simple", "SimpleReader"), ("asyncio.__main__", "main"), ("taskiq.cli.watcher", "FileWatcher"),
    # the claimed module is loaded, the dotted *type name* starts with a sub-package that is not
    ("taskiq", "api.run_receiver_task"), ("taskiq", "cli.worker.run.start_listen"), ("taskiq", "schedule_sources.LabelScheduleSource"),
    ("taskiq", "api"), ("taskiq", "cli.common_args.LogLevel"), ("json", "tool.main"), ("email", "mime.text.MIMEText"),
    # lookups that fail with KeyError; objects whose __wrapped__ is an exception class; names with white space around
    # them (nothing of that name exists: a synthetic class of exactly that name)
    ("trapmod", "settings.Missing"), ("trapmod", "settings.fn"), ("trapmod", "settings.Err"), ("trapmod", "settings.Missing.More"),
    ("trapmod", "wrapped_fn"), ("trapmod", "WrappedCls"),
    ("builtins", "ValueError "), (" builtins", "KeyError"), ("os", "\tsystem"), ("builtins", " ValueError"), ("trapmod ", "fn"),
    ("trapmod", "fn\n"), ("builtins", "Value Error"),
    # the claimed *module* is not a loaded module but "<loaded module>.<attribute path>": nothing to resolve there
    ("trapmod.Holder", "Err"), ("trapmod.Holder", "fn"), ("builtins.KeyError", "__base__"), ("taskiq.serialization.sys", "exit"),
    ("trapmod.settings", "fn"), ("trapmod.Holder.Inner", "__init__"), ("mon.excser.Outer", "Inner"),
    # names that are not ASCII: compatibility forms of existing names (fullwidth letters, ligatures) and others - nothing
    # goes by such a name, whatever it normalises to
    ("os", "\uff53ystem"), ("builtins", "\uff36alueError"), ("trapmod", "\uff46n"), ("builtins", "Value\ufb01Error"),
    ("trapmod", "Cls\u00e9"), ("builtins", "\u212aeyError"), ("trapmod", "Holder.\uff26n"),
]

class _Validating(Exception):
    def __init__(self, limit: Any = 0) -> None:
        if isinstance(limit, int) and limit < 0:
            raise RuntimeError("negative limit")
        super().__init__(limit)


# (module, dotted name, args): genuine exception classes whose constructor rejects these args with something
# other than TypeError, and module-less names that exist in builtins
SPECIAL: List[Tuple[Optional[str], str, List[Any]]] = [
    ("json", "JSONDecodeError", ["msg", 5, 0]), ("builtins", "UnicodeEncodeError", ["ascii", "x", 2 ** 70, 1, "why"]),
    ("builtins", "UnicodeDecodeError", ["ascii", "notbytes", 0, 1, "why"]), ("builtins", "ExceptionGroup", ["grp", []]),
    ("builtins", "ExceptionGroup", ["grp", ["notexc"]]), ("mon.excser", "RaisingInit", [1, 2]),
    ("mon.excser", "_Validating", [-1]), ("mon.excser", "NoArgInit", ["x"]), ("mon.excser", "TwoArgs", ["only-one"]),
    ("builtins", "OSError", [2, "No such file", "f", 0, "g"]), ("builtins", "SystemExit", [3]),
    (None, "print", ["pwned"]), (None, "eval", ["1+1"]), (None, "dict", []), (None, "open", ["x"]), (None, "object", []),
    (None, "ValueError", ["x"]), (None, "_verif_builtin_trap", [1, 2]), (None, "_VerifBuiltinTrapCls", []),
    (None, "len", ["abc"]), (None, "list", []), (None, "exit", []), (None, "__import__", ["colorsys"]),
    # unresolvable types whose *name* is also the name of something taskiq itself uses
    ("worker_app.errors", "SecurityError", ["x"]), ("worker_app.errors", "TaskiqError", []), ("remote.lib", "NoResultError", []),
    ("remote.lib", "exception_to_python", ["x"]), (None, "SecurityError", ["x"]), ("worker_app.errors", "ValueError", ["v"]),
    ("worker_app.errors", "charge.<locals>.QuotaExceeded", ["q"]), (None, "Outer.Inner", [1]),
    # the library's own stand-in for unpicklable errors is an exception class like any other: a stored error may name
    # it, with values of any shape (they are data: nothing in them may be looked up, called or iterated blindly)
    ("taskiq.serialization", "_UnpickleableExceptionWrapper", ["builtins", 5, ["x"], "repr"]),
    ("taskiq.serialization", "_UnpickleableExceptionWrapper", ["trapmod", "Boom", 7, "repr"]),
    ("taskiq.serialization", "_UnpickleableExceptionWrapper", ["trapmod", None, None, None]),
    ("taskiq.serialization", "_UnpickleableExceptionWrapper", ["builtins", "KeyError", ["k"], "KeyError('k')"]),
]

ARGS_POOL: List[List[Any]] = [[], ["x"], ["echo pwned"], [1, 2], [["nested"]], [{"k": "v"}], ["a", "b", "c"], [None]]


def resolve(module: Optional[str], name: str) -> Tuple[bool, Any]:
    if module is None:
        return False, None
    obj: Any = sys.modules.get(module)
    if obj is None:
        return False, None
    import types

    try:
        for part in name.split("."):
            if isinstance(obj, types.ModuleType):
                # no module-level __getattr__ (PEP 562): the monitor itself must not trigger a lazy import
                if part in vars(obj):
                    obj = vars(obj)[part]
                elif hasattr(type(obj), part):
                    obj = getattr(obj, part)  # an attribute of the module type (__class__, __dict__, ...)
                else:
                    return False, None
            else:
                obj = getattr(obj, part)
    except (AttributeError, KeyError):
        return False, None  # (an object whose attribute access raises KeyError for unknown names: not there either)
    return True, obj


_MON = sys.monitoring
TOOL = _MON.PROFILER_ID
CALLS: List[Any] = []
CALL_EVENTS = [0]
_PREFIX = REPO.rstrip("/") + "/taskiq/"
_mon_on = [False]
IMPORTS: List[str] = []
_audit_on = [False]


def _call_cb(code: Any, offset: int, callee: Any, arg0: Any) -> Any:
    if not code.co_filename.startswith(_PREFIX):
        return _MON.DISABLE
    CALL_EVENTS[0] += 1
    CALLS.append(callee)
    return None


def _audit(event: str, args: Any) -> None:
    if _audit_on[0] and event == "import":
        IMPORTS.append(args[0])


def monitor_start() -> None:
    if not _mon_on[0]:
        try:
            _MON.use_tool_id(TOOL, "verif-call-sanitizer")
        except ValueError:
            pass
        _MON.register_callback(TOOL, _MON.events.CALL, _call_cb)
        _MON.set_events(TOOL, _MON.events.CALL)
        sys.addaudithook(_audit)
        _mon_on[0] = True


_NO_RAW = object()


def payload_dict(module: Optional[str], name: str, args: List[Any], nest: int, where: str, raw: Any = _NO_RAW,
                 inner: Optional[str] = None) -> Dict[str, Any]:
    # raw: the stored "arguments" are not a list at all (a scalar, a bare string, an object)
    p: Dict[str, Any] = {"exc_type": name, "exc_message": list(args) if raw is _NO_RAW else raw, "exc_module": module}
    if inner:
        # the claimed error has a (benign) cause / context of its own
        p["exc_" + inner] = {"exc_type": "ValueError", "exc_message": ["root cause"], "exc_module": "builtins"}
    for i in range(nest):
        outer: Dict[str, Any] = {"exc_type": "ValueError", "exc_message": [f"level {i}"], "exc_module": "builtins"}
        key = "exc_cause" if (where == "cause" or (where == "mixed" and i % 2 == 0)) else "exc_context"
        outer[key] = p
        p = outer
    return p


LEGIT_CALLEES: List[Any] = []
_legit_done = [False]


def calibrate_legit_callees() -> None:
    """Callables that taskiq's own load path invokes for a *benign* nested payload (isinstance,
    issubclass, getattr, exception_to_python itself, ...).  A payload naming one of those cannot be
    judged by 'the target was called' (taskiq calls it for its own purposes); the outcome rule
    (SecurityError / no trap / no import) still applies to it."""
    if _legit_done[0]:
        return
    _legit_done[0] = True
    p = payload_dict("builtins", "ValueError", ["x"], 2, "mixed")
    p2 = payload_dict("nosuchmodule", "Ghost", ["x"], 1, "cause")
    del CALLS[:]
    for q in (p, p2):
        try:
            ser.exception_to_python(q)  # type: ignore[arg-type]
            TaskiqResult.model_validate({"is_err": True, "return_value": None, "execution_time": 0.1, "error": q})
        except Exception:  # noqa: BLE001
            pass
    try:
        ser.exception_to_python(payload_dict("builtins", "len", [], 0, "cause"))  # type: ignore[arg-type]
    except Exception:  # noqa: BLE001
        pass
    for c in CALLS:
        if not any(c is x for x in LEGIT_CALLEES):
            LEGIT_CALLEES.append(c)
    del CALLS[:]


_SECURITY_ERROR = taskiq.exceptions.SecurityError
_NS_MODULES = ("taskiq.exceptions", "taskiq.serialization", "builtins")
_NS_SNAPSHOT: Dict[str, Dict[str, int]] = {}


def _ns_changes() -> List[str]:
    """Names added to / rebound in taskiq's exception and serialisation modules (or builtins) since the first
    call: loading a stored error must not leave anything behind that later loads can trip over."""
    out = []
    for m in _NS_MODULES:
        cur = {k: id(x) for k, x in vars(sys.modules[m]).items()}
        if m not in _NS_SNAPSHOT:
            _NS_SNAPSHOT[m] = cur
            continue
        old = _NS_SNAPSHOT[m]
        for k, i in cur.items():
            if k.startswith("_") and k not in ("_UnpickleableExceptionWrapper",):
                continue
            if k not in old:
                out.append(f"{m}.{k} added")
            elif old[k] != i and m != "builtins":
                out.append(f"{m}.{k} rebound")
    return out


def run_c20(spec: Dict[str, Any]) -> "tuple[List[Violation], Dict[str, Any]]":
    install_trapmod()
    _ns_changes()
    monitor_start()
    calibrate_legit_callees()
    v: List[Violation] = []
    module, name, args = spec["module"], spec["name"], spec["args"]
    ok, target = resolve(module, name)
    is_exc = ok and isinstance(target, type) and issubclass(target, BaseException)
    obs: Dict[str, Any] = {"resolved": ok, "is_exc": bool(is_exc), "outcomes": []}
    pre_loaded = {m: (m in sys.modules) for m in NOT_LOADED}
    for pm, pn in spec.get("prelude", []):
        try:
            ser.exception_to_python(payload_dict(pm, pn, ["earlier"], 0, "cause"))  # type: ignore[arg-type]
        except BaseException:  # noqa: BLE001  (judged when it is a case of its own)
            pass
    obs["preludes"] = len(spec.get("prelude", []))
    for entry in spec["entries"]:
        p = payload_dict(module, name, args, spec["nest"], spec["where"], spec["raw_args"] if "raw_args" in spec else _NO_RAW,
                         spec.get("inner_link"))
        del TRAP_LOG[:]
        del CALLS[:]
        del IMPORTS[:]
        before = set(sys.modules)
        _audit_on[0] = True
        outcome = None
        result = None
        try:
            if entry in ("wrapper", "wrapper_validate", "wrapper_pickle"):
                # the form a pickled TaskiqResult holds for errors that could not be pickled
                w = ser._UnpickleableExceptionWrapper(module or "builtins", name, tuple(args), f"{name}{tuple(args)!r}")
                if entry == "wrapper":
                    result = ser.exception_to_python(w)
                elif entry == "wrapper_validate":
                    result = TaskiqResult.model_validate({"is_err": True, "return_value": None, "execution_time": 0.1, "error": w}).error
                else:
                    # the wrapper as it comes out of a pickle store (re-pickling a *restored* error is a store
                    # operation and outside C20: pickle itself imports the module a class claims)
                    result = ser.exception_to_python(pickle.loads(pickle.dumps(w)))
            elif entry == "exception_to_python":
                result = ser.exception_to_python(p)  # type: ignore[arg-type]
            elif entry == "model_validate":
                result = TaskiqResult.model_validate({"is_err": True, "return_value": None, "execution_time": 0.1, "error": p}).error
            else:
                js = json.dumps({"is_err": True, "return_value": None, "execution_time": 0.1, "error": p})
                result = TaskiqResult.model_validate_json(js).error
            outcome = "loaded"
        except _SECURITY_ERROR:
            outcome = "security-error"
        except pydantic.ValidationError:
            outcome = "validation-error"
        except BaseException as exc:  # noqa: BLE001
            outcome = f"raised:{type(exc).__name__}"
            v.append(Violation("unexpected-exception", f"{entry}: loading ({module!r}, {name!r}) raised {type(exc).__name__}: {str(exc)[:200]}"))
        finally:
            _audit_on[0] = False
        ch = _ns_changes()
        if ch:
            v.append(Violation("library-namespace-changed", f"{entry}: loading ({module!r}, {name!r}) left {ch[:4]} behind"))
            for m_ in _NS_MODULES:  # re-arm, so that the next case is judged on its own
                _NS_SNAPSHOT.pop(m_, None)
            _ns_changes()
        calls = list(CALLS)
        obs["outcomes"].append((entry, outcome))
        obs["call_events"] = obs.get("call_events", 0) + len(calls)
        new_mods = set(sys.modules) - before
        # (i) call sanitizer: the resolved target must never be called unless it is an exception class
        if ok and not is_exc and not any(target is x for x in LEGIT_CALLEES):
            for c in calls:
                if c is target or (callable(target) and getattr(c, "__func__", None) is target):
                    v.append(Violation("called-non-exception", f"{entry}: taskiq code called {module}.{name} ({_safe(target)}) while loading a stored error"))
                    break
        if not ok:
            leaf = name.split(".")[-1]
            if leaf.startswith("__") and leaf.endswith("__"):
                leaf = ""  # every object has callables of these names (taskiq's own __init__ ...): the name says nothing
            for c in calls:
                if leaf and getattr(c, "__name__", None) == leaf and not (isinstance(c, type) and issubclass(c, BaseException)) \
                        and not any(c is x for x in LEGIT_CALLEES):
                    v.append(Violation("called-non-exception", f"{entry}: unresolvable ({module!r}, {name!r}) but taskiq code called {_safe(c)}"))
                    break
        if TRAP_LOG and not is_exc:
            v.append(Violation("trap-invoked", f"{entry}: trap fired {TRAP_LOG[:3]} for ({module!r}, {name!r})"))
        # any non-exception class instantiated from taskiq frames that is not a helper of taskiq itself
        # (ii) imports
        bad_imports = [m for m in IMPORTS if m in NOT_LOADED or (module and m == module and module not in before)]
        if new_mods or bad_imports:
            v.append(Violation("module-imported", f"{entry}: loading ({module!r}, {name!r}) imported {sorted(new_mods) or bad_imports}"))
        # (iii) outcome
        if module == "flipmod":
            # a module whose attribute lookup is not idempotent: what the name "is" depends on when it is asked, so only
            # the invariants that do not depend on it are judged (no trap runs, nothing imported, the result is an
            # exception or the load is refused)
            if outcome == "loaded" and not isinstance(result, BaseException):
                v.append(Violation("loaded-non-exception", f"{entry}: result is {type(result).__name__}"))
            continue
        if entry.startswith("wrapper"):
            if outcome != "loaded" or not isinstance(result, BaseException):
                v.append(Violation("wrapper-not-restored", f"{entry}: wrapper for ({module!r}, {name!r}) gave {outcome} / {_safe(result)}"))
            elif type(result).__name__ != name or (ok and isinstance(target, type) and type(result) is target and not is_exc):
                v.append(Violation("wrapper-restored-with-real-class", f"{entry}: wrapper for ({module!r}, {name!r}) restored as {type(result).__module__}.{type(result).__qualname__}"))
            continue
        if outcome == "loaded":
            top = result
            inner = top
            for _ in range(spec["nest"]):
                nxt = inner.__cause__ if inner.__cause__ is not None else inner.__context__
                if nxt is None:
                    break
                inner = nxt
            if not isinstance(top, BaseException):
                v.append(Violation("loaded-non-exception", f"{entry}: result is {type(top).__name__}"))
            elif ok and not is_exc:
                v.append(Violation("non-exception-accepted", f"{entry}: ({module!r}, {name!r}) resolves to a non-exception object but loading succeeded with {_safe(top)}"))
            elif not ok and isinstance(inner, BaseException):
                if type(inner).__name__ != name:
                    v.append(Violation("synthetic-class-name", f"{entry}: unresolvable ({module!r}, {name!r}) loaded as {type(inner).__name__}"))
            elif is_exc and isinstance(inner, BaseException):
                if not isinstance(inner, target) and not (type(inner) is Exception and target.__name__ in str(inner)):
                    v.append(Violation("exception-class-not-used", f"{entry}: ({module!r}, {name!r}) is an exception class but loaded as {type(inner).__name__}"))
        elif outcome in ("security-error", "validation-error"):
            if (is_exc or not ok) and not ("raw_args" in spec and outcome == "validation-error"):
                v.append(Violation("legit-payload-rejected", f"{entry}: ({module!r}, {name!r}) resolved={ok} is_exc={is_exc} was rejected with {outcome}"))
    for m, was in pre_loaded.items():
        if not was and m in sys.modules:
            v.append(Violation("module-imported", f"module {m} got imported"))
    return v, obs


class C20(Check):
    pid = "C20"
    rule = ("Case = payload (exc_module, dotted exc_type, exc_message) from a catalogue of ~120 names resolving to "
            "functions (os.system, subprocess.call, builtins eval/exec/__import__), non-exception classes, "
            "metaclass-instrumented classes, callable instances, modules, attributes through dotted paths, bound and "
            "unbound methods of exception classes, non-callables, exception classes (must load), unresolvable names, "
            "modules not in sys.modules, module None; plus random dotted paths over attributes of every loaded "
            "module (thorough); placed at top level or nested 1-4 levels in exc_cause/exc_context; entered through "
            "exception_to_python(dict), TaskiqResult.model_validate and model_validate_json. Monitors: sys.monitoring "
            "CALL events from code objects under $VERIF_REPO/taskiq/ (call sanitizer: the independently resolved "
            "target must never be called unless it is a BaseException subclass), self-recording traps in a planted "
            "module, import audit hook + sys.modules diff, outcome classification. Non-trivial: name resolves to a "
            "non-exception object or is nested; distinct = distinct (module, name, nesting, args shape).")
    floors = {"counters.call_events": 20000, "counters.security_errors": 2000, "counters.loaded": 1000,
              "counters.nested_cases": 1000}
    quick_cases = 8000
    thorough_cases = 200000
    thorough_time = 400.0
    assumptions = [
        "names reached through modules with a PEP 562 lazy __getattr__ are out of scope (attribute walk may import submodules inside the target package)",
        "CPython 3.12 sys.monitoring reports the callee of every CALL instruction executed in taskiq code objects",
    ]

    def cases(self, rng: random.Random, tier: str, shard: int, nshards: int) -> Iterator[Any]:
        install_trapmod()
        i = shard
        mods = None
        while True:
            r = rng.random()
            if tier == "thorough" and r < 0.5:
                if mods is None:
                    # Only side-effect-free modules: under a *broken* taskiq the resolved callable is really
                    # invoked with the payload's arguments, so nothing that can kill, fork, delete or block
                    # may be reachable from here (the fixed catalogue keeps the classic os.system / eval /
                    # subprocess payloads, which are harmless with the argument pool used).
                    safe = ("math", "json", "re", "string", "textwrap", "itertools", "functools", "operator", "collections",
                            "datetime", "decimal", "fractions", "enum", "dataclasses", "typing", "types", "copy", "heapq",
                            "bisect", "base64", "binascii", "hashlib", "hmac", "uuid", "random", "statistics", "numbers",
                            "abc", "contextlib", "calendar", "struct", "array", "unicodedata", "codecs", "html",
                            "urllib.parse", "email", "pytz", "pycron", "zoneinfo", "izulu", "trapmod",
                            "typing_extensions", "annotated_types", "packaging", "keyword", "token", "reprlib", "pprint",
                            "graphlib", "ipaddress", "colorsys", "cmath", "difflib", "fnmatch", "locale", "gettext")
                    mods = sorted(m for m in sys.modules if sys.modules[m] is not None
                                  and (m in safe or m.split(".")[0] in safe)
                                  and "__getattr__" not in getattr(sys.modules[m], "__dict__", {}))
                m = rng.choice(mods)
                try:
                    attrs = [a for a in dir(sys.modules[m])]
                except Exception:  # noqa: BLE001
                    continue
                if not attrs:
                    continue
                path = [rng.choice(attrs)]
                obj = getattr(sys.modules[m], path[0], None)
                for _ in range(rng.choice([0, 0, 1, 2])):
                    try:
                        sub = [a for a in dir(obj)]
                    except Exception:  # noqa: BLE001
                        break
                    if not sub:
                        break
                    nxt = rng.choice(sub)
                    try:
                        obj = getattr(obj, nxt)
                    except Exception:  # noqa: BLE001
                        break
                    path.append(nxt)
                module, name = m, ".".join(path)
            else:
                k = i % (len(CATALOGUE) + len(SPECIAL))
                i += nshards
                if k >= len(CATALOGUE):
                    module, name, sargs = SPECIAL[k - len(CATALOGUE)]
                    yield {"module": module, "name": name, "args": sargs, "nest": rng.choice([0, 0, 1, 2]),
                           "where": rng.choice(["cause", "context", "mixed"]),
                           "entries": ["exception_to_python", "model_validate", "model_validate_json"]}
                    continue
                module, name = CATALOGUE[k]
            nest = rng.choice([0, 0, 1, 2, 3, 4]) if tier == "thorough" else rng.choice([0, 0, 1, 2])
            if rng.random() < 0.03:
                nest = rng.choice([33, 40, 64, 120])  # a long cause / context chain
            entries = ["exception_to_python", "model_validate", "model_validate_json"]
            if module and "." not in name and name and rng.random() < 0.4:
                entries = entries + ["wrapper", "wrapper_validate", "wrapper_pickle"]
            case = {"module": module, "name": name, "args": rng.choice(ARGS_POOL), "nest": nest,
                    "where": rng.choice(["cause", "context", "mixed"]), "entries": entries}
            if "raw_args" not in case and name and rng.random() < 0.2:
                # other stored errors loaded earlier in the same process whose module + type concatenate to the same
                # dotted string, split elsewhere: each load is judged by its own (module, type)
                joined = name if module is None else f"{module}.{name}"
                parts = joined.split(".")
                alts: List[Any] = [[None, joined]] + [[".".join(parts[:j]), ".".join(parts[j:])] for j in range(1, len(parts))]
                case["prelude"] = [a for a in alts if a != [module, name]][:4]
            if rng.random() < 0.2:
                case["inner_link"] = rng.choice(["cause", "context"])
            if rng.random() < 0.08:
                # stored "arguments" that are not a sequence
                case["raw_args"] = rng.choice([5, 1.5, True, None, "bare message", {"a": 1}, 0, ""])
                case["args"] = []
                case["entries"] = [e for e in entries if not e.startswith("wrapper")]
            yield case

    def run_case(self, spec: Dict[str, Any]) -> CaseResult:
        cr = CaseResult()
        v, obs = run_c20(spec)
        cr.violations += v
        cr.counters["call_events"] += obs.get("call_events", 0)
        for _, o in obs["outcomes"]:
            if o == "security-error":
                cr.counters["security_errors"] += 1
            elif o == "loaded":
                cr.counters["loaded"] += 1
            elif o == "validation-error":
                cr.counters["validation_errors"] += 1
        if spec["nest"]:
            cr.counters["nested_cases"] += 1
        cr.events["CALL"] += obs.get("call_events", 0)
        cr.nontrivial = (obs["resolved"] and not obs["is_exc"]) or spec["nest"] > 0
        cr.sig = jhash([spec["module"], spec["name"], spec["nest"], spec["where"], len(spec["args"])])
        cr.trace = {"payload": [spec["module"], spec["name"], spec["nest"]], "outcomes": obs["outcomes"], "resolved": obs["resolved"], "is_exception_class": obs["is_exc"]}
        return cr

    def selftest(self) -> List[str]:
        install_trapmod()
        ok, t = resolve("trapmod", "Holder.fn")
        if not ok or t is not _trap_fn:
            return ["C20 resolver broken"]
        ok, _ = resolve("colorsys", "rgb_to_hls")
        if ok:
            return ["colorsys unexpectedly loaded: 'not loaded' module list is stale"]
        sub = [m for m in NOT_LOADED if "." in m and m not in sys.modules and m.rpartition(".")[0] in sys.modules]
        if len(sub) < 3:
            return [f"too few unloaded submodules of loaded packages available: {sub}"]
        return []
