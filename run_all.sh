#!/bin/bash
# usage: run_all.sh [tier] [seed]  -- runs every check, prints the verdict lines
tier=${1:-quick}; seed=${2:-0}
cd "$(dirname "$0")"; mkdir -p .work
for p in C01 C02 C03 C04 C05 C06 C07 C08 C09 C10 C11 C12 C13 C14 C15 C16 C17 C18 C19 C20; do
  VERIF_SEED=$seed /venv/bin/python check.py $p --tier $tier > .work/out_$p.txt 2>&1; rc=$?
  echo "$p rc=$rc $(grep -E '^RESULT' .work/out_$p.txt | cut -c1-160)"
  grep -E '^(VIOLATION|INCONCLUSIVE)' .work/out_$p.txt | cut -c1-300
done
