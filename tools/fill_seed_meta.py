"""Fills summary / needs / round / ran of the stored seeds of one round from the sub-agents' notes.md.
usage: fill_seed_meta.py <round> <letters>   e.g. 8 UVW   (notes are read from /tmp/seed/Cxx/_seed<round>/<L>/notes.md)"""
import json
import os
import re
import sys

rnd, letters = sys.argv[1], (sys.argv[2].split(",") if "," in sys.argv[2] else list(sys.argv[2]))
for i in range(1, 21):
    p = f"C{i:02d}"
    for x in letters:
        mp = f"/verif/seeded/{p}-{x}/meta.json"
        np_ = f"/tmp/seed/{p}/_seed{rnd}/{x}/notes.md"
        if not os.path.exists(mp) or not os.path.exists(np_):
            continue
        m = json.load(open(mp))
        notes = open(np_).read()
        head = notes.strip().splitlines()[0] if notes.strip() else ""
        head = re.sub(r"^#+\s*", "", head)
        head = re.sub(r"^(C\d\d\s*/\s*)?[A-Z]{1,2}\s*[-:–—]+\s*", "", head)
        mc = re.search(r"Change[^:\n]*:\s*(.+?)(?:\n\s*\n|\Z)", notes, re.S)
        chg = " ".join(mc.group(1).split())[:400] if mc else ""
        mm = re.search(r"Needs?[^:\n]*:\s*(.+?)(?:\n\s*\n|\n#|\Z)", notes, re.S | re.I)
        if not mm:
            mm = re.search(r"(?:manifest|requires?|trigger)[^\n]*\n?(.+?)(?:\n\s*\n|\Z)", notes, re.S | re.I)
        if not m.get("summary"):
            m["summary"] = (head + (": " + chg if chg else ""))[:500]
        if not m.get("needs"):
            m["needs"] = " ".join(mm.group(1).split())[:400] if mm else ""
        m["round"] = int(rnd)
        m["ran"] = [f"tools/verify_seed.py {p} {x} _seed{rnd}  (patch applies; repo suite 146 passed with the change; demo fails with it, passes without)",
                    f"selftest.py --seeded --only {p}-{x}  (quick tier of the listed checks against a scratch copy with the patch applied)"]
        json.dump(m, open(mp, "w"), indent=1)
        if not m["summary"] or not m["needs"]:
            print("thin", p, x)
