#!/usr/bin/env python3
"""Systematic first-order mutation sweep over the files the properties are anchored in.

For every sampled mutant (AST operators below) of a target file:
  1. the mutated package must import;
  2. the repository's own test suite runs against it - a mutant the suite kills is not interesting
     (the checks are meant for what the suite cannot see);
  3. the quick tier of the checks mapped to that file runs against it (VERIF_REPO=<scratch copy>).
Survivors of both are written to the report with their diff for manual triage (equivalent mutant /
outside every property / real gap in a check).  Nothing in /repo is touched; scratch copies live
under /tmp and are removed.

usage: mutation_sweep.py [--files a.py,b.py] [--per-file 40] [--jobs 4] [--seed 0] [--out report.json]
"""
from __future__ import annotations

import argparse
import ast
import copy
import difflib
import json
import os
import random
import shutil
import subprocess
import sys
import tempfile
import time
from concurrent.futures import ThreadPoolExecutor
from typing import Any, Dict, List, Optional, Tuple

VERIF = os.path.dirname(os.path.dirname(os.path.abspath(__file__)))
REPO = os.environ.get("VERIF_REPO", "/repo")
PY = "/venv/bin/python"

WORKER = ["C01", "C02", "C03", "C04", "C05", "C06", "C07", "C10", "C12"]
TARGETS: Dict[str, List[str]] = {
    "taskiq/receiver/receiver.py": WORKER + ["C11"],
    "taskiq/receiver/params_parser.py": ["C08", "C01"],
    "taskiq/kicker.py": ["C08", "C09", "C10", "C16", "C11", "C13", "C14"],
    "taskiq/labels.py": ["C09", "C07"],
    "taskiq/message.py": ["C09", "C08"],
    "taskiq/middlewares/retry_middleware.py": ["C11", "C09"],
    "taskiq/cli/scheduler/run.py": ["C13", "C14", "C15", "C16"],
    "taskiq/scheduler/scheduler.py": ["C16", "C15"],
    "taskiq/schedule_sources/label_based.py": ["C16"],
    "taskiq/scheduler/scheduled_task/v2.py": ["C13", "C14", "C16"],
    "taskiq/cli/worker/process_manager.py": ["C17", "C18"],
    "taskiq/serialization.py": ["C19", "C20"],
    "taskiq/context.py": ["C09", "C06"],
    "taskiq/brokers/inmemory_broker.py": ["C06", "C07", "C11", "C10"],
    "taskiq/brokers/shared_broker.py": ["C09", "C16", "C01"],
    "taskiq/utils.py": ["C02", "C10", "C16", "C01"],
    "taskiq/decor.py": ["C09", "C08"],
    "taskiq/abc/broker.py": ["C01", "C08", "C09", "C10"],
    "taskiq/api/receiver.py": ["C04", "C08", "C12", "C01"],
    "taskiq/formatters/proxy_formatter.py": ["C08", "C09"],
    "taskiq/formatters/json_formatter.py": ["C08", "C09"],
    "taskiq/funcs.py": ["C06"],
    "taskiq/result/v2.py": ["C19", "C07"],
    "taskiq/depends/progress_tracker.py": ["C06"],
    "taskiq/cli/worker/args.py": ["C04", "C05", "C02"],
}

CMP = {ast.Lt: ast.LtE, ast.LtE: ast.Lt, ast.Gt: ast.GtE, ast.GtE: ast.Gt, ast.Eq: ast.NotEq, ast.NotEq: ast.Eq,
       ast.Is: ast.IsNot, ast.IsNot: ast.Is, ast.In: ast.NotIn, ast.NotIn: ast.In}


def _is_logging(node: ast.AST) -> bool:
    """Calls on logger / warnings and docstrings are not behaviour."""
    if isinstance(node, ast.Expr) and isinstance(node.value, ast.Constant) and isinstance(node.value.value, str):
        return True
    call = node.value if isinstance(node, ast.Expr) else node
    if isinstance(call, ast.Await):
        call = call.value
    if isinstance(call, ast.Call):
        f = call.func
        while isinstance(f, ast.Attribute):
            if isinstance(f.value, ast.Name) and f.value.id in ("logger", "logging", "warnings"):
                return True
            f = f.value
    return False


class Site:
    def __init__(self, kind: str, lineno: int, path: List[Any], desc: str) -> None:
        self.kind, self.lineno, self.path, self.desc = kind, lineno, path, desc


def collect_sites(tree: ast.AST) -> List[Tuple[str, int, str, Any]]:
    """Returns (operator, node index in ast.walk order, description, extra)."""
    sites: List[Tuple[str, int, str, Any]] = []
    skip: set = set()
    for node in ast.walk(tree):
        # never mutate inside logging calls, annotations, decorators, __all__
        if _is_logging(node):
            for sub in ast.walk(node):
                skip.add(id(sub))
        if isinstance(node, (ast.FunctionDef, ast.AsyncFunctionDef)):
            for sub in [node.returns] + [a.annotation for a in node.args.args + node.args.kwonlyargs] + node.decorator_list:
                if sub is not None:
                    for x in ast.walk(sub):
                        skip.add(id(x))
        if isinstance(node, ast.AnnAssign):
            for x in ast.walk(node.annotation):
                skip.add(id(x))
        if isinstance(node, ast.Assign) and any(isinstance(t, ast.Name) and t.id in ("__all__", "logger", "__template__") for t in node.targets):
            for x in ast.walk(node):
                skip.add(id(x))
    for idx, node in enumerate(ast.walk(tree)):
        if id(node) in skip:
            continue
        ln = getattr(node, "lineno", 0)
        if isinstance(node, ast.Compare):
            for k, op in enumerate(node.ops):
                if type(op) in CMP:
                    sites.append(("cmp", idx, f"L{ln}: {type(op).__name__} -> {CMP[type(op)].__name__}", k))
        elif isinstance(node, ast.BoolOp):
            sites.append(("boolop", idx, f"L{ln}: {'and->or' if isinstance(node.op, ast.And) else 'or->and'}", None))
        elif isinstance(node, ast.UnaryOp) and isinstance(node.op, ast.Not):
            sites.append(("not", idx, f"L{ln}: drop not", None))
        elif isinstance(node, ast.If):
            sites.append(("negif", idx, f"L{ln}: negate if-condition", None))
        elif isinstance(node, ast.Constant) and not isinstance(node.value, str) and node.value is not None and not isinstance(node.value, bytes):
            v = node.value
            if isinstance(v, bool):
                sites.append(("const", idx, f"L{ln}: {v} -> {not v}", not v))
            elif isinstance(v, int) and -2 <= v <= 100:
                sites.append(("const", idx, f"L{ln}: {v} -> {v + 1}", v + 1))
                if v > 0:
                    sites.append(("const", idx, f"L{ln}: {v} -> {v - 1}", v - 1))
            elif isinstance(v, float):
                sites.append(("const", idx, f"L{ln}: {v} -> {v * 10}", v * 10))
        elif isinstance(node, ast.Expr) and isinstance(node.value, (ast.Call, ast.Await)):
            sites.append(("delstmt", idx, f"L{ln}: delete statement `{ast.unparse(node)[:60]}`", None))
        elif isinstance(node, ast.AugAssign):
            sites.append(("delstmt", idx, f"L{ln}: delete `{ast.unparse(node)[:60]}`", None))
        elif isinstance(node, (ast.Break, ast.Continue)):
            sites.append(("delstmt", idx, f"L{ln}: {type(node).__name__.lower()} -> pass", None))
        elif isinstance(node, ast.Return) and node.value is not None and not (isinstance(node.value, ast.Constant) and node.value.value is None):
            sites.append(("retnone", idx, f"L{ln}: return None instead of `{ast.unparse(node.value)[:50]}`", None))
        elif isinstance(node, ast.Await) and isinstance(node.value, ast.Call):
            pass  # dropping an await on a coroutine is a warning at best; covered by delstmt
        elif isinstance(node, ast.ExceptHandler) and node.type is not None and isinstance(node.type, ast.Name) and node.type.id == "BaseException":
            sites.append(("exc", idx, f"L{ln}: except BaseException -> Exception", None))
    return sites


def mutate(src: str, site: Tuple[str, int, str, Any]) -> Optional[str]:
    tree = ast.parse(src)
    op, idx, _desc, extra = site
    nodes = list(ast.walk(tree))
    node = nodes[idx]
    if op == "cmp":
        node.ops[extra] = CMP[type(node.ops[extra])]()
    elif op == "boolop":
        node.op = ast.Or() if isinstance(node.op, ast.And) else ast.And()
    elif op == "not":
        node.op = ast.UAdd()  # +x keeps the operand; for bool contexts same truthiness as x
        return _replace_node(tree, node, node.operand)
    elif op == "negif":
        node.test = ast.UnaryOp(op=ast.Not(), operand=node.test)
    elif op == "const":
        node.value = extra
    elif op == "delstmt":
        return _replace_node(tree, node, ast.Pass())
    elif op == "retnone":
        node.value = ast.Constant(value=None)
    elif op == "exc":
        node.type = ast.Name(id="Exception", ctx=ast.Load())
    ast.fix_missing_locations(tree)
    return ast.unparse(tree)


def _replace_node(tree: ast.AST, old: ast.AST, new: ast.AST) -> str:
    class R(ast.NodeTransformer):
        def visit(self, n: ast.AST) -> Any:
            if n is old:
                return ast.copy_location(new, old)
            return self.generic_visit(n)

    t = R().visit(tree)
    ast.fix_missing_locations(t)
    return ast.unparse(t)


def scratch() -> str:
    d = tempfile.mkdtemp(prefix="verif_sweep_", dir="/tmp")
    shutil.copytree(os.path.join(REPO, "taskiq"), os.path.join(d, "taskiq"), ignore=shutil.ignore_patterns("__pycache__"))
    shutil.copytree(os.path.join(REPO, "tests"), os.path.join(d, "tests"), ignore=shutil.ignore_patterns("__pycache__"))
    for f in ("pyproject.toml", "tox.ini"):
        if os.path.exists(os.path.join(REPO, f)):
            shutil.copy(os.path.join(REPO, f), d)
    return d


def suite_passes(root: str) -> Tuple[bool, str]:
    env = dict(os.environ)
    env["PYTHONPATH"] = root
    env["PYTHONDONTWRITEBYTECODE"] = "1"
    try:
        r = subprocess.run([PY, "-m", "pytest", "-q", "-p", "no:cacheprovider", "--timeout=120", "--continue-on-collection-errors", "tests"],
                           cwd=root, env=env, capture_output=True, text=True, timeout=600)
    except subprocess.TimeoutExpired:
        return False, "suite timeout"
    tail = (r.stdout.strip().splitlines() or [""])[-1]
    return ("146 passed" in tail and "failed" not in tail), tail


def run_check(pid: str, root: str, seed: int) -> Tuple[int, str]:
    env = dict(os.environ)
    env.update({"VERIF_REPO": root, "VERIF_SEED": str(seed), "VERIF_NO_EVIDENCE": "1", "VERIF_SHARDS": "4"})
    try:
        r = subprocess.run([PY, os.path.join(VERIF, "check.py"), pid, "--tier", "quick"], env=env, capture_output=True, text=True, timeout=1500)
    except subprocess.TimeoutExpired:
        return 2, "check timeout"
    return r.returncode, r.stdout + r.stderr


def one(job: Tuple[str, str, Tuple[str, int, str, Any], List[str], int]) -> Dict[str, Any]:
    rel, src, site, checks, seed = job
    res: Dict[str, Any] = {"file": rel, "op": site[0], "desc": site[2]}
    try:
        new = mutate(src, site)
    except Exception as exc:  # noqa: BLE001
        res["status"] = "mutation-error"
        res["error"] = repr(exc)
        return res
    base = ast.unparse(ast.parse(src))
    if new is None or new == base:
        res["status"] = "no-change"
        return res
    res["diff"] = "".join(list(difflib.unified_diff(base.splitlines(True), new.splitlines(True), rel, rel, n=1))[:40])
    root = scratch()
    try:
        with open(os.path.join(root, rel), "w") as f:
            f.write(new)
        r = subprocess.run([PY, "-c", "import sys; sys.path.insert(0, sys.argv[1]); import taskiq, taskiq.api, taskiq.cli.worker.run, taskiq.cli.scheduler.run", root],
                           capture_output=True, text=True)
        if r.returncode != 0:
            res["status"] = "does-not-import"
            return res
        ok, tail = suite_passes(root)
        res["suite"] = tail
        if not ok:
            res["status"] = "killed-by-suite"
            return res
        res["checks"] = {}
        status = "survived"
        for pid in checks:
            t0 = time.time()
            rc, out = run_check(pid, root, seed)
            kinds = [ln.strip()[:140] for ln in out.splitlines() if ln.strip().startswith("kind=")][:2]
            res["checks"][pid] = {"rc": rc, "kinds": kinds, "wall": round(time.time() - t0, 1)}
            if rc == 1:
                status = "killed-by-check"
                res["killed_by"] = pid
                break
            if rc == 2 and status == "survived":
                status = "inconclusive"
        res["status"] = status
        return res
    finally:
        shutil.rmtree(root, ignore_errors=True)


def main() -> int:
    ap = argparse.ArgumentParser()
    ap.add_argument("--files")
    ap.add_argument("--per-file", type=int, default=40)
    ap.add_argument("--jobs", type=int, default=4)
    ap.add_argument("--seed", type=int, default=0)
    ap.add_argument("--out", default=os.path.join(VERIF, ".work", "mutation_sweep.json"))
    a = ap.parse_args()
    rng = random.Random(a.seed)
    jobs = []
    for rel, checks in TARGETS.items():
        if a.files and not any(x in rel for x in a.files.split(",")):
            continue
        p = os.path.join(REPO, rel)
        if not os.path.exists(p):
            continue
        src = open(p).read()
        sites = collect_sites(ast.parse(src))
        rng.shuffle(sites)
        for s in sites[: a.per_file]:
            jobs.append((rel, src, s, checks, a.seed))
    print(f"{len(jobs)} mutants", flush=True)
    os.makedirs(os.path.dirname(a.out), exist_ok=True)
    results = []
    with ThreadPoolExecutor(a.jobs) as ex:
        for k, r in enumerate(ex.map(one, jobs)):
            results.append(r)
            print(f"[{k + 1}/{len(jobs)}] {r['status']:16s} {r['file']} {r['desc']} {r.get('killed_by', '')}", flush=True)
            if k % 10 == 0:
                json.dump(results, open(a.out, "w"), indent=1)
    json.dump(results, open(a.out, "w"), indent=1)
    from collections import Counter

    c = Counter(r["status"] for r in results)
    print(dict(c))
    live = c["killed-by-check"] + c["survived"] + c["inconclusive"]
    if live:
        print(f"of the {live} mutants the repository's suite does not kill, the checks kill {c['killed-by-check']} ({100.0 * c['killed-by-check'] / live:.0f} %)")
    return 0


if __name__ == "__main__":
    sys.exit(main())
