import subprocess, sys, json
from concurrent.futures import ThreadPoolExecutor
props = sys.argv[1].split(","); rnd = sys.argv[2]; letters = sys.argv[3].split(",") if "," in sys.argv[3] else list(sys.argv[3])
def one(p):
    out = []
    for x in letters:
        r = subprocess.run(["/venv/bin/python", "/verif/tools/verify_seed.py", p, x, rnd], capture_output=True, text=True)
        l = r.stdout.strip().splitlines()[-1] if r.stdout.strip() else r.stderr[-200:]
        try:
            d = json.loads(l); out.append(f"{d['id']} {'confirmed' if d.get('confirmed') else 'NOT-CONFIRMED'} {d.get('tests_with_change','')[:12]} {d.get('demo_with_change_rc')} {d.get('demo_without_change_rc')}")
        except Exception:
            out.append(f"{p}-{x} ERR {l[:200]}")
    return out
with ThreadPoolExecutor(8) as ex:
    for o in ex.map(one, props):
        print("\n".join(o))
