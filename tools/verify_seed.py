#!/usr/bin/env python3
"""Confirm a sub-agent's seeded change in its scratch worktree: patch applies, suite still 146 passed,
demo fails with the change and passes without it.  Then copy it to /verif/seeded/<id>/."""
import json, os, shutil, subprocess, sys

def sh(cmd, cwd, env=None, timeout=900):
    e = dict(os.environ); e.update(env or {})
    r = subprocess.run(cmd, shell=True, cwd=cwd, env=e, capture_output=True, text=True, timeout=timeout)
    return r.returncode, (r.stdout + r.stderr)

def main():
    pid, variant = sys.argv[1], sys.argv[2]
    wt = f"/tmp/seed/{pid}"
    sdir = sys.argv[3] if len(sys.argv) > 3 else "_seed"
    sd = f"{wt}/{sdir}/{variant}"
    out = {"id": f"{pid}-{variant}", "property": pid}
    env = {"PYTHONPATH": wt, "PYTHONDONTWRITEBYTECODE": "1"}
    sh("git checkout -- . ", wt)
    rc, o = sh("git status --short | grep -v '^??' | wc -l", wt)
    rc, o = sh(f"git apply --check {sd}/patch.diff && git apply {sd}/patch.diff", wt)
    out["applies"] = rc == 0
    if rc != 0:
        out["error"] = o[-500:]
        print(json.dumps(out)); return
    rc, o = sh("/venv/bin/python -m pytest -q -p no:cacheprovider --timeout=900 --continue-on-collection-errors tests 2>&1 | tail -3", wt, env)
    out["tests_with_change"] = o.strip().splitlines()[-1] if o.strip() else ""
    demo = "demo.py"
    runner = "/venv/bin/python demo.py"
    src = open(f"{sd}/demo.py").read()
    if "def test_" in src and "__main__" not in src:
        runner = "/venv/bin/python -m pytest -q -p no:cacheprovider demo.py"
    rc1, o1 = sh(runner, sd, env, timeout=300)
    out["demo_with_change_rc"] = rc1
    out["demo_with_change_tail"] = o1[-300:]
    sh("git checkout -- .", wt)
    rc2, o2 = sh(runner, sd, env, timeout=300)
    out["demo_without_change_rc"] = rc2
    out["demo_without_change_tail"] = o2[-300:]
    out["demo_cmd"] = f"PYTHONPATH=<tree> {runner}"
    ok = out["applies"] and "146 passed" in out["tests_with_change"] and rc1 != 0 and rc2 == 0
    out["confirmed"] = ok
    if ok:
        dst = f"/verif/seeded/{pid}-{variant}"
        os.makedirs(dst, exist_ok=True)
        shutil.copy(f"{sd}/patch.diff", dst)
        shutil.copy(f"{sd}/demo.py", dst)
        if os.path.exists(f"{sd}/notes.md"):
            shutil.copy(f"{sd}/notes.md", dst)
        meta = {"id": f"{pid}-{variant}", "property": pid, "checks": [pid],
                "origin": "independent sub-agent given only the property text and a scratch worktree",
                "confirmed_by": "tools/verify_seed.py in the scratch worktree: patch applies; repository suite with change = "
                                + out["tests_with_change"] + f"; demo exit {rc1} with change, {rc2} without",
                "demo_cmd": out["demo_cmd"], "needs": "", "summary": ""}
        if not os.path.exists(f"{dst}/meta.json"):
            json.dump(meta, open(f"{dst}/meta.json", "w"), indent=1)
    print(json.dumps(out))

main()
