"""Regenerates the sub-agent prompts of a seeded-change round from the previous round's prompt and the stored metas.
usage: gen_seed_prompts.py <prev_round> <new_round> <L1> <L2> <L3>   (prompts live under /tmp/seed, scratch only)"""
import glob
import json
import re
import sys

prev, new, l1, l2, l3 = sys.argv[1:6]
for i in range(1, 21):
    p = f"C{i:02d}"
    src = open(f"/tmp/seed/{p}.prompt{prev}.txt").read()
    used = []
    for mp in sorted(glob.glob(f"/verif/seeded/{p}-*/meta.json")):
        m = json.load(open(mp))
        s = (m.get("summary") or "").strip()
        if s:
            s = re.split(r"(?<=[a-z\)])\. |: ", s, maxsplit=1)[0] if len(s) > 160 else s
            used.append("     - " + s[:170])
    head, rest = src.split("   Already used (one line each):\n", 1)
    # (the scope sentence, when present, sits between the used list and the "breakage needs" paragraph: keep it)
    cut = rest.index("   The break must violate the STATEMENT") if "   The break must violate the STATEMENT" in rest \
        else rest.index("   The breakage needs something specific")
    tail = rest[cut:]
    out = head + "   Already used (one line each):\n" + "\n".join(used) + "\n" + tail
    old = re.findall(r"call them (\w+), (\w+) and (\w+)", out)[0]
    out = out.replace(f"call them {old[0]}, {old[1]} and {old[2]}", f"call them {l1}, {l2} and {l3}")
    out = out.replace(f"X in {{{old[0]}, {old[1]}, {old[2]}}}", f"X in {{{l1}, {l2}, {l3}}}")
    out = out.replace(f"for {old[0]}, {old[1]} and {old[2]}:", f"for {l1}, {l2} and {l3}:")
    out = out.replace(f"_seed{prev}", f"_seed{new}")
    open(f"/tmp/seed/{p}.prompt{new}.txt", "w").write(out)
    print(p, len(used), len(out))
